"""C24 helpers: single/batch create pairs, pre-states, argument-vector alphabets, row comparison.

A case descriptor is
    {"pair": <key of PAIRS>, "pre": "empty"|"plain"|"rich", "n": 1..3, "kind": "valid"|"missing_bus"|"dup_index"|"dup_cost",
     "args": {batch_arg_name: ["s", value] | ["l", [v0..vn-1]] | ["a", [v0..vn-1]]},   # s = scalar broadcast, l = list, a = numpy array
     "index": None | [i0..in-1], "devs": [names of the deviations that were applied]}
NaN is written "nan" in descriptors.  The batch function is called once with the vectors; the single function is
called n times with the i-th entry of every per-element vector (scalars are passed to every call).
"""
import copy
import inspect
import itertools
import math

import numpy as np
import pandas as pd

import pandapower as pp

NAN = "nan"

RENAME = {"buses": "bus", "from_buses": "from_bus", "to_buses": "to_bus", "hv_buses": "hv_bus", "mv_buses": "mv_bus",
          "lv_buses": "lv_bus", "elements": "element", "from_buses_dc": "from_bus_dc", "to_buses_dc": "to_bus_dc"}

# columns that are not electrical parameters (statement: "rows whose electrical parameters ... equal")
COSMETIC = {"name", "geo", "coords"}
COSMETIC_PER_TABLE = {"bus": {"zone", "type"}, "bus_dc": {"zone", "type"}}
CUSTOM = {"cust"}        # user defined kwargs column: exercised, but not an electrical parameter -> not judged

# ------------------------------------------------------------------------------------------------
# generated standard types (registered in every pre-state) - contain the optional parameters the
# built-in types do not have
# ------------------------------------------------------------------------------------------------
GEN_TYPES = {
    "line": {
        "GEN_line_zero": {"r_ohm_per_km": 0.2, "x_ohm_per_km": 0.3, "c_nf_per_km": 200., "max_i_ka": 0.4, "type": "cs",
                          "r0_ohm_per_km": 0.8, "x0_ohm_per_km": 1.2, "c0_nf_per_km": 100., "g_us_per_km": 1.5,
                          "alpha": 0.004, "endtemp_degree": 80., "q_mm2": 120},
        "GEN_line_min": {"r_ohm_per_km": 0.1, "x_ohm_per_km": 0.4, "c_nf_per_km": 10., "max_i_ka": 0.6},
    },
    "line_dc": {
        "GEN_linedc_g": {"r_ohm_per_km": 0.05, "max_i_ka": 1.0, "g_us_per_km": 0.5, "type": "ol", "alpha": 0.004},
        "GEN_linedc_min": {"r_ohm_per_km": 0.02, "max_i_ka": 2.0},
        "GEN_linedc_r0": {"r_ohm_per_km": 0.05, "max_i_ka": 1.0, "r0_ohm_per_km": 0.1, "alpha": 0.004, "type": "cs"},
    },
    "trafo": {
        "GEN_trafo_full": {"sn_mva": 25., "vn_hv_kv": 110., "vn_lv_kv": 20., "vk_percent": 12., "vkr_percent": 0.41,
                           "pfe_kw": 14., "i0_percent": 0.07, "shift_degree": 150., "vector_group": "YNd5",
                           "tap_side": "lv", "tap_neutral": 1, "tap_min": -4, "tap_max": 6, "tap_step_percent": 1.25,
                           "tap_step_degree": 2.0, "tap_changer_type": "Symmetrical",
                           "vk0_percent": 11., "vkr0_percent": 0.4, "mag0_percent": 100., "mag0_rx": 0.1,
                           "si0_hv_partial": 0.9,
                           "tap2_side": "hv", "tap2_neutral": 0, "tap2_min": -2, "tap2_max": 2,
                           "tap2_step_percent": 0.5, "tap2_step_degree": 0., "tap2_changer_type": "Ratio"},
        "GEN_trafo_ideal": {"sn_mva": 40., "vn_hv_kv": 110., "vn_lv_kv": 10., "vk_percent": 10., "vkr_percent": 0.3,
                            "pfe_kw": 20., "i0_percent": 0.05, "shift_degree": 30., "tap_side": "hv", "tap_neutral": 0,
                            "tap_min": -5, "tap_max": 5, "tap_step_percent": 0., "tap_step_degree": 1.5,
                            "tap_changer_type": "Ideal"},
        "GEN_trafo_min": {"sn_mva": 0.63, "vn_hv_kv": 20., "vn_lv_kv": 0.4, "vk_percent": 6., "vkr_percent": 1.0,
                          "pfe_kw": 1.2, "i0_percent": 0.2, "shift_degree": 0.},
    },
    "trafo3w": {
        "GEN_t3_full": {"sn_hv_mva": 40., "sn_mv_mva": 25., "sn_lv_mva": 15., "vn_hv_kv": 110., "vn_mv_kv": 20.,
                        "vn_lv_kv": 10., "vk_hv_percent": 10., "vk_mv_percent": 11., "vk_lv_percent": 12.,
                        "vkr_hv_percent": 0.3, "vkr_mv_percent": 0.31, "vkr_lv_percent": 0.32, "pfe_kw": 30.,
                        "i0_percent": 0.1, "shift_mv_degree": 30., "shift_lv_degree": 150., "vector_group": "YNyd",
                        "tap_side": "mv", "tap_neutral": 1, "tap_min": -3, "tap_max": 5, "tap_step_percent": 1.2,
                        "tap_step_degree": 1.0, "tap_changer_type": "Symmetrical",
                        "vk0_hv_percent": 9., "vk0_mv_percent": 10., "vk0_lv_percent": 11., "vkr0_hv_percent": 0.3,
                        "vkr0_mv_percent": 0.3, "vkr0_lv_percent": 0.3},
        "GEN_t3_min": {"sn_hv_mva": 63., "sn_mv_mva": 40., "sn_lv_mva": 25., "vn_hv_kv": 110., "vn_mv_kv": 20.,
                       "vn_lv_kv": 10., "vk_hv_percent": 10.4, "vk_mv_percent": 10.4, "vk_lv_percent": 10.4,
                       "vkr_hv_percent": 0.28, "vkr_mv_percent": 0.32, "vkr_lv_percent": 0.35, "pfe_kw": 35.,
                       "i0_percent": 0.5, "shift_mv_degree": 0., "shift_lv_degree": 0.},
    },
}

_PRE = {}
BUS_VN = {0: 110., 1: 20., 2: 20., 3: 10., 4: 0.4, 5: 20., 7: 110.}     # bus 6 does not exist
MISSING_BUS = 6


def _register_types(net):
    for el, types in GEN_TYPES.items():
        for name, data in types.items():
            pp.create_std_type(net, copy.deepcopy(data), name, element=el)


def _mk_empty():
    net = pp.create_empty_network(sn_mva=1.)
    for b, vn in BUS_VN.items():
        pp.create_bus(net, vn, index=b, name="b%d" % b)
    for b in (0, 1, 2):
        pp.create_bus_dc(net, 320., index=b)
    _register_types(net)
    return net


TRP = dict(sn_mva=25., vn_hv_kv=110., vn_lv_kv=20., vkr_percent=0.41, vk_percent=12., pfe_kw=14., i0_percent=0.07)
T3P = dict(vn_hv_kv=110., vn_mv_kv=20., vn_lv_kv=10., sn_hv_mva=40., sn_mv_mva=25., sn_lv_mva=15.,
           vk_hv_percent=10., vk_mv_percent=11., vk_lv_percent=12., vkr_hv_percent=0.3, vkr_mv_percent=0.31,
           vkr_lv_percent=0.32, pfe_kw=30., i0_percent=0.1)
LNP = dict(length_km=2.0, r_ohm_per_km=0.2, x_ohm_per_km=0.3, c_nf_per_km=200., max_i_ka=0.4)


def _mk_plain(rich=False):
    """existing elements at non contiguous indices (0 and 3; free id 4).  Table sizes differ on purpose
    (storage 0,2 / ward 0,3 ; line 0,3 / line_dc 0,4) so that an index taken from the wrong table collides."""
    net = _mk_empty()
    o = (lambda **kw: kw) if rich else (lambda **kw: {})
    for i, b in ((0, 1), (1, 2), (2, 5)):
        pp.create_gen(net, b, 1., index=i, **o(min_p_mw=0., max_p_mw=2., min_q_mvar=-1., max_q_mvar=1., min_vm_pu=0.9,
                                                max_vm_pu=1.1, controllable=True, vn_kv=20., xdss_pu=0.2, rdss_ohm=0.05,
                                                cos_phi=0.9, pg_percent=0., power_station_trafo=0, sn_mva=2.))
    for i, b in ((0, 1), (1, 2), (3, 5)):
        pp.create_load(net, b, 1., 0.2, index=i, **o(min_p_mw=0., max_p_mw=2., min_q_mvar=-1., max_q_mvar=1.,
                                                      controllable=False, sn_mva=2.))
    for i, b in ((0, 1), (3, 2)):
        pp.create_sgen(net, b, 0.5, index=i, **o(min_p_mw=0., max_p_mw=2., min_q_mvar=-1., max_q_mvar=1.,
                                                  controllable=True, k=1.2, rx=0.1, sn_mva=1., kappa=1.5,
                                                  generator_type="current_source", lrc_pu=5., max_ik_ka=0.3))
    for i, b in ((0, 1), (2, 2)):
        pp.create_storage(net, b, 0.3, 5., index=i, **o(min_p_mw=-1., max_p_mw=1., min_q_mvar=-1., max_q_mvar=1.,
                                                         controllable=False, soc_percent=50.))
    for i, b in ((0, 1), (3, 2)):
        pp.create_ward(net, b, 0.4, 0.1, 0.3, -0.2, index=i)
        pp.create_shunt(net, b, -0.5, 0.05, index=i, **o(id_characteristic_table=0, step_dependency_table=False))
        pp.create_impedance(net, 1 if i == 0 else 2, 2 if i == 0 else 5, 0.02, 0.05, 10., index=i,
                            **o(rft0_pu=0.03, xft0_pu=0.06, gf0_pu=0.01, bf0_pu=0.02))
    pp.create_line_from_parameters(net, 1, 2, index=0, **LNP, **o(
        max_loading_percent=90., r0_ohm_per_km=0.4, x0_ohm_per_km=1.0, c0_nf_per_km=100., endtemp_degree=80.,
        alpha=0.004, temperature_degree_celsius=25., tdpf=False, wind_speed_m_per_s=0.5))
    pp.create_line_from_parameters(net, 2, 5, index=3, **LNP)
    pp.create_line_dc_from_parameters(net, 0, 1, 10., 0.05, 1.0, index=0, **o(max_loading_percent=90., alpha=0.004,
                                                                               temperature_degree_celsius=25.))
    pp.create_line_dc_from_parameters(net, 1, 2, 10., 0.05, 1.0, index=4)
    pp.create_transformer_from_parameters(net, 0, 1, index=0, **TRP, **o(
        max_loading_percent=90., tap_side="hv", tap_neutral=0, tap_min=-2, tap_max=2, tap_step_percent=1.5,
        tap_step_degree=0., tap_pos=1, tap_changer_type="Ratio", vector_group="Dyn", vk0_percent=12., vkr0_percent=0.4,
        mag0_percent=100., mag0_rx=0., si0_hv_partial=0.9, pt_percent=5., oltc=True, xn_ohm=0.1,
        tap2_side="hv", tap2_neutral=0, tap2_min=-1, tap2_max=1, tap2_step_percent=0.5, tap2_step_degree=0., tap2_pos=0,
        tap2_changer_type="Ratio", id_characteristic_table=0, tap_dependency_table=False))
    pp.create_transformer_from_parameters(net, 7, 5, index=3, **TRP)
    pp.create_transformer3w_from_parameters(net, 0, 1, 3, index=0, **T3P, **o(
        max_loading_percent=90., tap_side="hv", tap_neutral=0, tap_min=-2, tap_max=2, tap_step_percent=1.5, tap_pos=1,
        tap_changer_type="Ratio", vector_group="YNyd", vk0_hv_percent=9., vk0_mv_percent=10., vk0_lv_percent=11.,
        vkr0_hv_percent=0.3, vkr0_mv_percent=0.3, vkr0_lv_percent=0.3, id_characteristic_table=0))
    pp.create_transformer3w_from_parameters(net, 7, 2, 3, index=3, **T3P)
    pp.create_switch(net, 1, 2, "b", index=0)
    pp.create_switch(net, 1, 0, "l", index=3, **o(in_ka=1.0, z_ohm=0.1))
    if rich:
        net.bus["min_vm_pu"] = 0.9
        net.bus["max_vm_pu"] = 1.1
        net.bus_dc["min_vm_pu"] = 0.9
        net.bus_dc["max_vm_pu"] = 1.1
        pp.create_poly_cost(net, 0, "gen", 1., index=0)
        pp.create_pwl_cost(net, 1, "gen", [[0, 1, 1]], index=0)
        pp.create_pwl_cost(net, 0, "load", [[0, 1, 1]], power_type="q", index=3)
        pp.create_poly_cost(net, 0, "sgen", 2., index=3)
    return net


def prestate(name, tables=None):
    """copy of a pre-state.  tables=None: full deep copy.  Otherwise only the listed tables are copied and all other
    DataFrames / the std-type library are shared with the cached pre-state (the create functions only read them);
    run_case verifies afterwards that no shared table was replaced or resized (shared_untouched)."""
    if name not in _PRE:
        _PRE[name] = {"empty": _mk_empty, "plain": _mk_plain, "rich": lambda: _mk_plain(True)}[name]()
    base = _PRE[name]
    if tables is None:
        return copy.deepcopy(base)
    new = base.__class__.__new__(base.__class__)
    for k, v in base.items():
        if isinstance(v, pd.DataFrame):
            new[k] = v.copy() if k in tables else v
        elif k == "std_types":
            new[k] = v
        else:
            new[k] = copy.deepcopy(v)
    new._setattr("_allow_invalid_attributes", base._allow_invalid_attributes)
    return new


def shared_untouched(name, net, tables):
    base = _PRE[name]
    for k, v in base.items():
        if isinstance(v, pd.DataFrame) and k not in tables:
            if net[k] is not v or v.shape != _SHAPES[name][k]:
                return k
    return None


_SHAPES = {}


def freeze_shapes():
    for name, base in _PRE.items():
        _SHAPES[name] = {k: v.shape for k, v in base.items() if isinstance(v, pd.DataFrame)}


# ------------------------------------------------------------------------------------------------
# alphabets
# ------------------------------------------------------------------------------------------------
def S(v):
    return ["s", v]


def L(*v):
    return ["l", list(v)]


def D(name, **args):
    """one deviation = one (possibly composite) assignment of optional arguments"""
    return {"name": name, "args": args}


_LIMITS = [D("max_p", max_p_mw=S(2.)), D("max_p_l", max_p_mw=L(2., NAN, 3.)), D("min_p", min_p_mw=S(0.)),
           D("min_p_l", min_p_mw=L(NAN, 0.1, 0.2)), D("max_q", max_q_mvar=S(1.)), D("max_q_l", max_q_mvar=L(1., NAN, 2.)),
           D("min_q", min_q_mvar=S(-1.)), D("min_q_l", min_q_mvar=L(NAN, -1., -2.)),
           D("ctrl_T", controllable=S(True)), D("ctrl_F", controllable=S(False)), D("ctrl_l", controllable=L(True, False, True)),
           D("ctrl_nanl", controllable=L(True, NAN, False))]
_COMMON = [D("insvc_F", in_service=S(False)), D("insvc_l", in_service=L(True, False, True)), D("cust", cust=S(7.5)),
           D("cust_l", cust=L(1., 2., 3.))]
# perm/perm2: bus ids that are a permutation of the ids the new elements get in an empty table (label alignment hazards)
_BUSV = {"perm": L(1, 0, 2), "dup": L(2, 2, 4), "perm2": L(2, 0, 1)}
_TDPF = [D("tdpf", tdpf=S(True)), D("wind", wind_speed_m_per_s=S(0.6)), D("wind_l", wind_speed_m_per_s=L(0.6, NAN, 0.8)),
         D("tdpf_all", tdpf=S(True), wind_speed_m_per_s=S(0.6), wind_angle_degree=S(45.), conductor_outer_diameter_m=S(0.03),
           air_temperature_degree_celsius=S(35.), reference_temperature_degree_celsius=S(20.),
           solar_radiation_w_per_sq_m=S(900.), solar_absorptivity=S(0.5), emissivity=S(0.5), r_theta_kelvin_per_mw=S(4.),
           mc_joule_per_m_k=S(500.))]
_LINE_OPT = [D("len_l", length_km=L(1., 2., 3.)), D("df", df=S(0.8)), D("df_l", df=L(1., 0.8, 0.9)), D("par", parallel=S(2)),
             D("par_l", parallel=L(1, 2, 3)), D("maxload", max_loading_percent=S(80.)),
             D("maxload_l", max_loading_percent=L(80., NAN, 60.)), D("alpha", alpha=S(0.004)),
             D("temp", temperature_degree_celsius=S(60.)), D("alpha_temp", alpha=S(0.004), temperature_degree_celsius=S(60.))]
_BR = {"chain": {"from": L(0, 1, 2), "to": L(1, 2, 3)}, "same": {"from": L(1, 1, 1), "to": L(2, 2, 2)}}
_TR_OPT = [D("tap_pos", tap_pos=S(2)), D("tap_pos_l", tap_pos=L(1, NAN, -1)), D("tap_pos_f", tap_pos=S(1.5)),
           D("maxload", max_loading_percent=S(80.)), D("maxload_l", max_loading_percent=L(80., NAN, 60.)),
           D("tct", tap_changer_type=S("Ideal")), D("tct_l", tap_changer_type=L("Ratio", None, "Ideal")),
           D("tdt", tap_dependency_table=S(True), id_characteristic_table=S(0)),
           D("idc_l", id_characteristic_table=L(0, None, 1))]
_TR2_OPT = [D("par", parallel=S(2)), D("par_l", parallel=L(1, 2, 3)), D("df", df=S(0.9)), D("df_l", df=L(1., 0.9, 0.8)),
            D("pt", pt_percent=S(5.)), D("oltc", oltc=S(True)), D("oltc_l", oltc=L(True, False, True)), D("xn", xn_ohm=S(0.5)),
            D("xn_l", xn_ohm=L(0.5, NAN, 0.1)), D("lrr", leakage_resistance_ratio_hv=S(0.3), leakage_reactance_ratio_hv=S(0.4))]


def _req(d, lists=True):
    """every required numeric parameter once as per-element list"""
    out = []
    if lists:
        for k, v in d.items():
            out.append(D(k + "_l", **{k: L(v, v * 1.1, v * 0.9)}))
    return out


PAIRS = {
    "bus": dict(single="create_bus", batch="create_buses", table="bus", count="nr_buses", node_args=[],
                vec={"_": {}}, base={"vn_kv": S(20.)},
                opt=[D("vn_l", vn_kv=L(110., 20., 0.4)), D("type", type=S("n")), D("type_l", type=L("b", "n", "m")),
                     D("zone", zone=S("z1")), D("max_vm", max_vm_pu=S(1.1)), D("max_vm_l", max_vm_pu=L(1.1, NAN, 1.05)),
                     D("min_vm", min_vm_pu=S(0.9)), D("min_vm_l", min_vm_pu=L(NAN, 0.9, 0.95))] + _COMMON),
    "bus_dc": dict(single="create_bus_dc", batch="create_buses_dc", table="bus_dc", count="nr_buses_dc", node_args=[],
                   vec={"_": {}}, base={"vn_kv": S(320.)},
                   opt=[D("vn_l", vn_kv=L(320., 500., 100.)), D("type", type=S("n")), D("max_vm", max_vm_pu=S(1.1)),
                        D("max_vm_l", max_vm_pu=L(1.1, NAN, 1.05)), D("min_vm", min_vm_pu=S(0.9)),
                        D("min_vm_l", min_vm_pu=L(NAN, 0.9, 0.95))] + _COMMON),
    "line": dict(single="create_line", batch="create_lines", table="line", node_args=["from_buses", "to_buses"],
                 vec={k: {"from_buses": v["from"], "to_buses": v["to"]} for k, v in _BR.items()},
                 base={"length_km": S(1.5), "std_type": S("NAYY 4x50 SE")}, std=("line", "std_type"),
                 opt=_LINE_OPT + _TDPF + _COMMON + [
                     D("std_l", std_type=L("NAYY 4x50 SE", "149-AL1/24-ST1A 110.0", "GEN_line_zero")),
                     D("std_l2", std_type=L("GEN_line_min", "GEN_line_zero", "NA2XS2Y 1x95 RM/25 12/20 kV")),
                     # mixed lists: types with / without optional (zero sequence, g, alpha) parameters in both orders
                     D("std_l3", std_type=L("GEN_line_zero", "GEN_line_min", "GEN_line_zero")),
                     D("std_l4", std_type=L("GEN_line_min", "NAYY 4x50 SE", "GEN_line_zero")),
                     D("std_l5", std_type=L("GEN_line_zero", "GEN_line_zero", "GEN_line_min"))]),
    "line_par": dict(single="create_line_from_parameters", batch="create_lines_from_parameters", table="line",
                     node_args=["from_buses", "to_buses"],
                     vec={k: {"from_buses": v["from"], "to_buses": v["to"]} for k, v in _BR.items()},
                     base={k: S(v) for k, v in LNP.items()},
                     opt=_req(LNP) + _LINE_OPT[1:] + _TDPF + _COMMON + [
                         D("type", type=S("ol")), D("type_l", type=L("ol", None, "cs")), D("g", g_us_per_km=S(2.)),
                         D("g_l", g_us_per_km=L(2., 0., 1.)),
                         D("zero", r0_ohm_per_km=S(0.4), x0_ohm_per_km=S(1.0), c0_nf_per_km=S(100.)),
                         D("zero_g0", r0_ohm_per_km=S(0.4), x0_ohm_per_km=S(1.0), c0_nf_per_km=S(100.), g0_us_per_km=S(1.)),
                         D("zero_l", r0_ohm_per_km=L(0.4, 0.5, 0.6), x0_ohm_per_km=L(1.0, 1.1, 1.2), c0_nf_per_km=L(100., 90., 80.)),
                         D("endtemp", endtemp_degree=S(80.)), D("endtemp_l", endtemp_degree=L(80., NAN, 70.))]),
    "line_dc": dict(single="create_line_dc", batch="create_lines_dc", table="line_dc", node_table="bus_dc",
                    node_args=["from_buses_dc", "to_buses_dc"],
                    vec={"chain": {"from_buses_dc": L(0, 1, 0), "to_buses_dc": L(1, 2, 2)},
                         "same": {"from_buses_dc": L(1, 1, 1), "to_buses_dc": L(2, 2, 2)}},
                    base={"length_km": S(10.), "std_type": S("2400-CU")}, std=("line_dc", "std_type"),
                    opt=_LINE_OPT + _COMMON + [D("std_l", std_type=L("2400-CU", "GEN_linedc_g", "GEN_linedc_min")),
                                               D("std_l2", std_type=L("GEN_linedc_min", "GEN_linedc_r0", "2400-CU")),
                                               D("std_l3", std_type=L("GEN_linedc_r0", "GEN_linedc_min", "GEN_linedc_r0"))]),
    "line_dc_par": dict(single="create_line_dc_from_parameters", batch="create_lines_dc_from_parameters",
                        table="line_dc", node_table="bus_dc", node_args=["from_buses_dc", "to_buses_dc"],
                        vec={"chain": {"from_buses_dc": L(0, 1, 0), "to_buses_dc": L(1, 2, 2)},
                             "same": {"from_buses_dc": L(1, 1, 1), "to_buses_dc": L(2, 2, 2)}},
                        base={"length_km": S(10.), "r_ohm_per_km": S(0.05), "max_i_ka": S(1.0)},
                        opt=_req({"length_km": 10., "r_ohm_per_km": 0.05, "max_i_ka": 1.0}) + _LINE_OPT[1:] + _COMMON + [
                            D("type", type=S("ol")), D("g", g_us_per_km=S(2.)), D("g_l", g_us_per_km=L(2., 0., 1.))]),
    "trafo": dict(single="create_transformer", batch="create_transformers", table="trafo",
                  node_args=["hv_buses", "lv_buses"],
                  vec={"chain": {"hv_buses": L(0, 0, 7), "lv_buses": L(1, 2, 5)},
                       "same": {"hv_buses": L(0, 0, 0), "lv_buses": L(1, 1, 1)}},
                  base={"std_type": S("25 MVA 110/20 kV")}, std=("trafo", "std_type"),
                  opt=_TR_OPT + _TR2_OPT + _COMMON + [D("tap2_pos", tap2_pos=S(1)), D("tap2_pos_l", tap2_pos=L(1, NAN, -1))]),
    "trafo_par": dict(single="create_transformer_from_parameters", batch="create_transformers_from_parameters",
                      table="trafo", node_args=["hv_buses", "lv_buses"],
                      vec={"chain": {"hv_buses": L(0, 0, 7), "lv_buses": L(1, 2, 5)},
                           "same": {"hv_buses": L(0, 0, 0), "lv_buses": L(1, 1, 1)}},
                      base={k: S(v) for k, v in TRP.items()},
                      opt=_req(TRP) + _TR_OPT + _TR2_OPT + _COMMON + [
                          D("shift", shift_degree=S(150.)), D("shift_l", shift_degree=L(0., 150., 30.)),
                          D("tap", tap_side=S("hv"), tap_neutral=S(0), tap_min=S(-2), tap_max=S(2), tap_step_percent=S(2.5),
                            tap_changer_type=S("Ratio")),
                          D("tap_l", tap_side=L("hv", "lv", None), tap_neutral=L(0, 1, NAN), tap_min=L(-2, -3, NAN),
                            tap_max=L(2, 3, NAN), tap_step_percent=L(2.5, 1.5, NAN), tap_changer_type=L("Ratio", "Ideal", None)),
                          D("tap_deg", tap_side=S("lv"), tap_neutral=S(0), tap_min=S(-2), tap_max=S(2), tap_step_percent=S(1.),
                            tap_step_degree=S(2.), tap_changer_type=S("Symmetrical"), tap_pos=S(1)),
                          D("vg", vector_group=S("Dyn")), D("vg_l", vector_group=L("Dyn", None, "YNyn")),
                          D("zero", vector_group=S("Dyn"), vk0_percent=S(12.), vkr0_percent=S(0.4), mag0_percent=S(100.),
                            mag0_rx=S(0.), si0_hv_partial=S(0.9)),
                          D("vk0_only", vk0_percent=S(12.)), D("vk0_l", vk0_percent=L(12., NAN, 10.)),
                          D("tap2", tap2_side=S("hv"), tap2_neutral=S(0), tap2_min=S(-1), tap2_max=S(1),
                            tap2_step_percent=S(0.5), tap2_step_degree=S(0.), tap2_changer_type=S("Ratio")),
                          D("tap2_pos", tap2_side=S("hv"), tap2_neutral=S(0), tap2_min=S(-1), tap2_max=S(1),
                            tap2_step_percent=S(0.5), tap2_changer_type=S("Ratio"), tap2_pos=S(1))]),
    "trafo3w": dict(single="create_transformer3w", batch="create_transformers3w", table="trafo3w",
                    node_args=["hv_buses", "mv_buses", "lv_buses"],
                    vec={"chain": {"hv_buses": L(0, 0, 7), "mv_buses": L(1, 2, 5), "lv_buses": L(3, 3, 3)}},
                    base={"std_type": S("63/25/38 MVA 110/20/10 kV")}, std=("trafo3w", "std_type"),
                    opt=_TR_OPT + _COMMON + [D("star", tap_at_star_point=S(True)),
                                             D("star_l", tap_at_star_point=L(True, False, True))]),
    "trafo3w_par": dict(single="create_transformer3w_from_parameters", batch="create_transformers3w_from_parameters",
                        table="trafo3w", node_args=["hv_buses", "mv_buses", "lv_buses"],
                        vec={"chain": {"hv_buses": L(0, 0, 7), "mv_buses": L(1, 2, 5), "lv_buses": L(3, 3, 3)}},
                        base={k: S(v) for k, v in T3P.items()},
                        opt=_req(T3P) + _TR_OPT + _COMMON + [
                            D("star", tap_at_star_point=S(True)), D("star_l", tap_at_star_point=L(True, False, True)),
                            D("shift", shift_mv_degree=S(30.), shift_lv_degree=S(150.)),
                            D("shift_l", shift_lv_degree=L(0., 150., 30.)),
                            D("tap", tap_side=S("hv"), tap_neutral=S(0), tap_min=S(-2), tap_max=S(2), tap_step_percent=S(2.5),
                              tap_changer_type=S("Ratio")),
                            D("tap_l", tap_side=L("hv", "mv", None), tap_neutral=L(0, 1, NAN), tap_min=L(-2, -3, NAN),
                              tap_max=L(2, 3, NAN), tap_step_percent=L(2.5, 1.5, NAN), tap_changer_type=L("Ratio", "Ideal", None)),
                            D("tap_deg", tap_side=S("lv"), tap_neutral=S(0), tap_min=S(-2), tap_max=S(2), tap_step_percent=S(1.),
                              tap_step_degree=S(2.), tap_changer_type=S("Symmetrical"), tap_pos=S(1)),
                            D("vg", vector_group=S("YNyd")), D("vg_l", vector_group=L("YNyd", None, "YNynd")),
                            D("zero", vector_group=S("YNyd"), vk0_hv_percent=S(9.), vk0_mv_percent=S(10.), vk0_lv_percent=S(11.),
                              vkr0_hv_percent=S(0.3), vkr0_mv_percent=S(0.3), vkr0_lv_percent=S(0.3)),
                            D("vk0_l", vk0_hv_percent=L(9., NAN, 8.))]),
    "load": dict(single="create_load", batch="create_loads", table="load", node_args=["buses"],
                 vec={k: {"buses": v} for k, v in _BUSV.items()}, base={"p_mw": S(1.)},
                 opt=[D("p_l", p_mw=L(1., 2., 0.)), D("q", q_mvar=S(0.3)), D("q_l", q_mvar=L(0.3, 0., -0.2)),
                      D("zp", const_z_p_percent=S(30.)), D("zip", const_z_p_percent=S(30.), const_i_p_percent=S(20.),
                                                            const_z_q_percent=S(40.), const_i_q_percent=S(10.)),
                      D("zip_l", const_z_p_percent=L(30., 0., 100.), const_i_q_percent=L(0., 50., 0.)),
                      D("sn", sn_mva=S(2.)), D("sn_l", sn_mva=L(2., NAN, 3.)), D("scal", scaling=S(0.5)),
                      D("scal_l", scaling=L(1., 0.5, 0.)), D("type", type=S("delta"))] + _LIMITS + _COMMON),
    "sgen": dict(single="create_sgen", batch="create_sgens", table="sgen", node_args=["buses"],
                 vec={k: {"buses": v} for k, v in _BUSV.items()}, base={"p_mw": S(1.)},
                 opt=[D("p_l", p_mw=L(1., 2., 0.)), D("q", q_mvar=S(0.3)), D("q_l", q_mvar=L(0.3, 0., -0.2)),
                      D("sn", sn_mva=S(2.)), D("sn_l", sn_mva=L(2., NAN, 3.)), D("scal", scaling=S(0.5)), D("type", type=S("delta")),
                      D("k", k=S(1.2)), D("k_l", k=L(1.2, NAN, 1.0)), D("rx", rx=S(0.1)), D("cs_F", current_source=S(False)),
                      D("cs_l", current_source=L(True, False, True)), D("gt_cs", generator_type=S("current_source"), k=S(1.3)),
                      D("gt_async", generator_type=S("async"), lrc_pu=S(5.)),
                      D("gt_df", generator_type=S("async_doubly_fed"), max_ik_ka=S(0.3), kappa=S(1.5)),
                      D("kappa", kappa=S(1.5)),
                      D("qcap", id_q_capability_characteristic=S(0), reactive_capability_curve=S(True),
                        curve_style=S("straightLineYValues")),
                      D("rcc_l", reactive_capability_curve=L(True, False, True))] + _LIMITS + _COMMON),
    "gen": dict(single="create_gen", batch="create_gens", table="gen", node_args=["buses"],
                vec={k: {"buses": v} for k, v in _BUSV.items()}, base={"p_mw": S(1.)},
                opt=[D("p_l", p_mw=L(1., 2., 0.)), D("vm", vm_pu=S(1.02)), D("vm_l", vm_pu=L(1.02, 1.0, 0.98)),
                     D("sn", sn_mva=S(2.)), D("sn_l", sn_mva=L(2., NAN, 3.)), D("scal", scaling=S(0.5)), D("type", type=S("sync")),
                     D("slack", slack=S(True)), D("slack_l", slack=L(True, False, True)), D("sw", slack_weight=S(1.)),
                     D("min_vm", min_vm_pu=S(0.95)), D("min_vm_l", min_vm_pu=L(0.95, NAN, 0.9)), D("max_vm", max_vm_pu=S(1.05)),
                     D("max_vm_l", max_vm_pu=L(NAN, 1.05, 1.1)),
                     D("sc", vn_kv=S(20.), xdss_pu=S(0.2), rdss_ohm=S(0.05), cos_phi=S(0.9)),
                     D("sc_l", vn_kv=L(20., NAN, 21.), xdss_pu=L(0.2, 0.25, NAN)), D("pg", pg_percent=S(5.)),
                     D("pst", power_station_trafo=S(0)),
                     D("qcap", id_q_capability_characteristic=S(0), reactive_capability_curve=S(True),
                       curve_style=S("straightLineYValues")),
                     D("rcc_l", reactive_capability_curve=L(True, False, True))] + _LIMITS + _COMMON),
    "storage": dict(single="create_storage", batch="create_storages", table="storage", node_args=["buses"],
                    vec={k: {"buses": v} for k, v in _BUSV.items()}, base={"p_mw": S(0.5), "max_e_mwh": S(5.)},
                    opt=[D("p_l", p_mw=L(0.5, -0.5, 0.)), D("e_l", max_e_mwh=L(5., 6., 7.)), D("q", q_mvar=S(0.1)),
                         D("q_l", q_mvar=L(0.1, 0., -0.1)), D("sn", sn_mva=S(2.)), D("sn_l", sn_mva=L(2., NAN, 3.)),
                         D("soc", soc_percent=S(50.)), D("soc_l", soc_percent=L(50., NAN, 20.)), D("mine", min_e_mwh=S(1.)),
                         D("mine_l", min_e_mwh=L(1., 0., 2.)), D("scal", scaling=S(0.5)), D("type", type=S("bat")),
                         D("type_l", type=L("bat", None, "fly"))] + _LIMITS + _COMMON),
    "shunt": dict(single="create_shunt", batch="create_shunts", table="shunt", node_args=["buses"],
                  vec={k: {"buses": v} for k, v in _BUSV.items()}, base={"q_mvar": S(-0.5)},
                  opt=[D("q_l", q_mvar=L(-0.5, 0.5, 0.)), D("p", p_mw=S(0.05)), D("p_l", p_mw=L(0.05, 0., 0.1)),
                       D("vn", vn_kv=S(21.)), D("vn_l", vn_kv=L(21., 10.5, 0.4)), D("step", step=S(2), max_step=S(3)),
                       D("step_l", step=L(1, 2, 3), max_step=S(3)),
                       D("sdt", step_dependency_table=S(True), id_characteristic_table=S(0)),
                       D("idc_l", id_characteristic_table=L(0, None, 1))] + _COMMON),
    "ward": dict(single="create_ward", batch="create_wards", table="ward", node_args=["buses"],
                 vec={k: {"buses": v} for k, v in _BUSV.items()},
                 base={"ps_mw": S(0.4), "qs_mvar": S(0.1), "pz_mw": S(0.3), "qz_mvar": S(-0.2)},
                 opt=_req({"ps_mw": 0.4, "qs_mvar": 0.1, "pz_mw": 0.3, "qz_mvar": -0.2}) + _COMMON),
    "switch": dict(single="create_switch", batch="create_switches", table="switch", node_args=["buses"],
                   vec={"bb": {"buses": L(1, 2, 5), "elements": L(2, 5, 1), "et": S("b")},
                        "bb_l": {"buses": L(1, 2, 5), "elements": L(2, 5, 1), "et": L("b", "b", "b")},
                        "l": {"buses": L(1, 2, 5), "elements": L(0, 0, 3), "et": S("l")},
                        "t": {"buses": L(0, 1, 5), "elements": L(0, 0, 3), "et": S("t")},
                        "t3": {"buses": L(0, 1, 3), "elements": L(0, 0, 3), "et": S("t3")},
                        "t3_l": {"buses": L(0, 1, 3), "elements": L(0, 0, 3), "et": L("t3", "t3", "t3")},
                        "mix": {"buses": L(1, 2, 7), "elements": L(0, 5, 3), "et": L("l", "b", "t")},
                        "mix3": {"buses": L(3, 2, 5), "elements": L(0, 3, 3), "et": L("t3", "l", "t")}},
                   needs_elements=True, base={},
                   opt=[D("open", closed=S(False)), D("open_l", closed=L(True, False, True)), D("type", type=S("CB")),
                        D("type_l", type=L("CB", None, "LS")), D("z", z_ohm=S(0.1)), D("z_l", z_ohm=L(0.1, 0., 0.2)),
                        D("inka", in_ka=S(1.)), D("inka_l", in_ka=L(1., NAN, 2.)), D("cust", cust=S(7.5))]),
    "impedance": dict(single="create_impedance", batch="create_impedances", table="impedance",
                      node_args=["from_buses", "to_buses"],
                      vec={k: {"from_buses": v["from"], "to_buses": v["to"]} for k, v in _BR.items()},
                      base={"rft_pu": S(0.02), "xft_pu": S(0.05), "sn_mva": S(10.)},
                      opt=_req({"rft_pu": 0.02, "xft_pu": 0.05, "sn_mva": 10.}) + _COMMON + [
                          D("tf", rtf_pu=S(0.03), xtf_pu=S(0.04)), D("tf_l", rtf_pu=L(0.03, 0.02, 0.01)),
                          D("gf", gf_pu=S(0.01), bf_pu=S(0.02)), D("gt", gt_pu=S(0.015), bt_pu=S(-0.01)),
                          D("g_l", gf_pu=L(0.01, 0., 0.02), bt_pu=L(0., 0.01, 0.02)),
                          D("zero_ft", rft0_pu=S(0.03), xft0_pu=S(0.06)),
                          D("zero_all", rft0_pu=S(0.03), xft0_pu=S(0.06), rtf0_pu=S(0.04), xtf0_pu=S(0.07)),
                          D("zero_l", rft0_pu=L(0.03, 0.04, 0.05), xft0_pu=L(0.06, 0.07, 0.08)),
                          D("g0", gf0_pu=S(0.01), bf0_pu=S(0.02)),
                          D("g0_all", gf0_pu=S(0.01), bf0_pu=S(0.02), gt0_pu=S(0.03), bt0_pu=S(0.04))]),
    "poly_cost": dict(single="create_poly_cost", batch="create_poly_costs", table="poly_cost", node_args=[],
                      vec={"gen": {"elements": L(2, 1, 0), "et": S("gen")},
                           "gen_l": {"elements": L(2, 1, 0), "et": L("gen", "gen", "gen")},
                           "mix": {"elements": L(2, 1, 3), "et": L("gen", "load", "sgen")},
                           "same_idx": {"elements": L(1, 1, 1), "et": L("load", "storage", "sgen")}},
                      needs_elements=True, base={"cp1_eur_per_mw": S(1.)}, cost=True,
                      opt=[D("cp1_l", cp1_eur_per_mw=L(1., 2., 3.)), D("cp0", cp0_eur=S(0.5)), D("cp0_l", cp0_eur=L(0.5, 0., 1.)),
                           D("cq1", cq1_eur_per_mvar=S(0.2)), D("cq0", cq0_eur=S(0.1)), D("cp2", cp2_eur_per_mw2=S(0.01)),
                           D("cp2_l", cp2_eur_per_mw2=L(0.01, 0., 0.02)), D("cq2", cq2_eur_per_mvar2=S(0.02)),
                           D("cust", cust=S(7.5))]),
    "pwl_cost": dict(single="create_pwl_cost", batch="create_pwl_costs", table="pwl_cost", node_args=[],
                     vec={"gen": {"elements": L(2, 1, 0), "et": S("gen")},
                          "gen_l": {"elements": L(2, 1, 0), "et": L("gen", "gen", "gen")},
                          "mix": {"elements": L(2, 1, 3), "et": L("gen", "load", "sgen")},
                          "same_idx": {"elements": L(1, 1, 1), "et": L("load", "storage", "sgen")},
                          # one element with several power types inside one call (singles accept p and q for one element)
                          "pq_same": {"elements": L(2, 2, 1), "et": S("gen"), "power_type": L("p", "q", "q")},
                          "pq_same_l": {"elements": L(2, 2, 2), "et": L("gen", "gen", "gen"), "power_type": L("q", "p", "q")},
                          "qp_mix": {"elements": L(0, 2, 0), "et": L("load", "gen", "load"), "power_type": L("p", "q", "q")}},
                     needs_elements=True, cost=True,
                     base={"points": L([[0, 1, 1]], [[0, 1, 1], [1, 2, 2]], [[0, 2, 3], [2, 3, 4], [3, 4, 5]])},
                     opt=[D("pts_same", points=L([[0, 1, 1]], [[0, 1, 1]], [[0, 1, 1]])), D("q", power_type=S("q")),
                          D("pq_l", power_type=L("p", "q", "p")), D("cust", cust=S(7.5))]),
}


def _annotation(fn, arg):
    p = inspect.signature(fn).parameters.get(arg)
    return None if p is None else str(p.annotation)


_LA = {}


def list_allowed(pair, arg):
    """a per-element list is only part of the alphabet where the batch function documents an iterable
    (kwargs: always)"""
    if (pair, arg) not in _LA:
        _LA[(pair, arg)] = _list_allowed(pair, arg)
    return _LA[(pair, arg)]


def _list_allowed(pair, arg):
    a = _annotation(getattr(pp, PAIRS[pair]["batch"]), arg)
    if a is None:
        return True
    return any(t in a for t in ("Iterable", "Sequence", "list["))


def trunc(form, n):
    if form[0] in ("l", "a"):
        return [form[0], list(form[1][:n])]
    return form


def apply_devs(pair, base_args, devs, n):
    args = {k: trunc(v, n) for k, v in base_args.items()}
    for d in devs:
        for k, v in d["args"].items():
            args[k] = trunc(v, n)
    return args


def dev_ok(pair, d):
    return all(f[0] == "s" or list_allowed(pair, a) for a, f in d["args"].items())


def compatible(devs):
    seen = set()
    for d in devs:
        for a in d["args"]:
            if a in seen:
                return False
            seen.add(a)
    return True


def builtin_types(element):
    net = prestate("empty")
    return sorted(net.std_types[element])


# ------------------------------------------------------------------------------------------------
# execution
# ------------------------------------------------------------------------------------------------
def _dec(v):
    if isinstance(v, str) and v == NAN:
        return np.nan        # the numpy singleton: pandapower tests "x is nan" in several create functions
    if isinstance(v, list):
        return [_dec(x) for x in v]
    return v


def batch_value(form):
    k, v = form
    v = _dec(v)
    if k == "a":
        return np.array(v)
    return v


def single_value(form, i):
    k, v = form
    if k == "s":
        return _dec(v)
    return _dec(v[i])


def run_batch(net, case):
    spec = PAIRS[case["pair"]]
    kw = {a: batch_value(f) for a, f in case["args"].items()}
    if "count" in spec:
        kw[spec["count"]] = case["n"]
    if case.get("index") is not None:
        kw["index"] = list(case["index"]) if case.get("index_form", "l") == "l" else np.array(case["index"])
    if case.get("check") is not None:
        kw["check"] = case["check"]
    return list(getattr(pp, spec["batch"])(net, **kw))


def run_singles(net, case):
    spec = PAIRS[case["pair"]]
    fn = getattr(pp, spec["single"])
    out = []
    for i in range(case["n"]):
        kw = {RENAME.get(a, a): single_value(f, i) for a, f in case["args"].items()}
        if case.get("index") is not None:
            kw["index"] = case["index"][i]
        if case.get("check") is not None:
            kw["check"] = case["check"]
        out.append(fn(net, **kw))
    return out


def norm(v):
    """value normalisation for the row comparison: every null is None, numbers/bools -> float, '' -> None"""
    if v is None or v is pd.NA or v is pd.NaT:
        return None
    if isinstance(v, (bool, np.bool_)):
        return float(v)
    if isinstance(v, (int, float, np.integer, np.floating)):
        f = float(v)
        return None if math.isnan(f) else f
    if isinstance(v, str):
        return v if v != "" else None
    if isinstance(v, (list, tuple, np.ndarray)):
        return [norm(x) for x in v]
    return repr(v)


def veq(a, b):
    if isinstance(a, float) and isinstance(b, float):
        return a == b or abs(a - b) <= 1e-12 * max(abs(a), abs(b))
    return a == b


def cosmetic_cols(table):
    return COSMETIC | COSMETIC_PER_TABLE.get(table, set())


def compare_rows(table, ta, ia, tb, ib):
    """ta/tb: tables after batch / singles; ia/ib: created indices.  Returns list of
    (position, column, batch value, single value) for electrical columns and the same for custom columns."""
    diffs, custom = [], []
    cols = [c for c in list(ta.columns) + [c for c in tb.columns if c not in ta.columns] if c not in cosmetic_cols(table)]
    for pos, (x, y) in enumerate(zip(ia, ib)):
        for c in cols:
            va = norm(ta.at[x, c]) if c in ta.columns else None
            vb = norm(tb.at[y, c]) if c in tb.columns else None
            if not veq(va, vb):
                (custom if c in CUSTOM else diffs).append((pos, c, va, vb))
    return diffs, custom

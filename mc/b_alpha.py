"""agentB: network alphabet for the metamorphic checks C05 / C23 (shared bases of mc.netalpha, own sub-menus).

ZIP loads are kept out of the main menus (recorded defect family C01-zip); they appear only in ZIP_CASES, which
are paired with the load-splitting transformation alone.
"""
from mc import netalpha as na

BASES = ["R3", "M4", "T3", "W3", "I2"]


def _nozip(menu):
    return [d for d in menu if not (d[0] == "load" and d[4] != "P")]


def extras(base):
    """deviations that make representation-dependent code paths reachable (parallel>1, 2nd slack with an angle,
    lines without capacitance, z>0 switches, chains of fused buses)"""
    m = []
    if base == "R3":
        m += [["set", "line", 0, "parallel", 3], ["set", "ext_grid", 0, "va_degree", 3.0],
              ["switch", 1, 2, "b", True, 0.], ["switch", 3, 1, "b", True, 0.],
              ["set", "line", 1, "c_nf_per_km", 0.], ["ward", 3, True], ["xward", 3, True]]
    elif base == "M4":
        m += [["set", "line", 4, "parallel", 3], ["switch", 1, 3, "b", True, 0.], ["switch", 2, 3, "b", True, 1.0],
              ["set", "line", 0, "c_nf_per_km", 0.], ["gen", 3, 10., 1.0, "wide", False, True]]
    elif base == "T3":
        m += [["set", "line", 0, "parallel", 2], ["set", "ext_grid", 0, "va_degree", -2.0],
              ["switch", 1, 2, "b", True, 0.], ["set", "line", 0, "c_nf_per_km", 0.]]
    elif base == "W3":
        m += [["set", "line", 0, "parallel", 2], ["switch", 1, 3, "b", True, 0.], ["xward", 3, True],
              ["set", "line", 0, "c_nf_per_km", 0.], ["trafo", 0, 1]]
    elif base == "I2":
        m += [["set", "line", 2, "parallel", 2], ["gen", 3, 0.5, 1.01, "wide", False, True],
              ["set", "line", 0, "c_nf_per_km", 0.], ["switch", 1, 3, "b", True, 0.]]
    # a double circuit WITH dielectric conductance (g_us_per_km is 0 in every default): every place that scales line
    # shunt parameters with `parallel` / sn_mva must treat g like c
    pl = {"R3": 1, "M4": 2, "T3": 0, "W3": 0, "I2": 0}[base]
    m += [["multi", [["set", "line", pl, "parallel", 2], ["set", "line", pl, "g_us_per_km", 10.]]]]
    return m


def menu(base):
    out = []
    for d in _nozip(na.bus_element_menu(base)) + na.structure_menu(base) + extras(base):
        if d not in out:
            out.append(d)
    return out


def zip_cases(base):
    """nets with voltage dependent loads: alone, next to a constant-power load / sgen, two different ZIP loads"""
    b0 = na.HOT[base][0]
    s = 20. if base == "M4" else 1.
    z = ["load", b0, 1.0 * s, 0.4 * s, "Z", 1., True]
    i = ["load", b0, 1.2 * s, 0.3 * s, "I", 1., True]
    m2 = ["load", b0, 1.0 * s, 0.5 * s, "M2", 0.5, True]
    p = ["load", b0, 1.5 * s, 0.5 * s, "P", 1., True]
    sg = ["sgen", b0, 0.8 * s, -0.2 * s, 1., True]
    return [[z], [i], [m2], [z, p], [z, sg], [z, i], [m2, p]]


def build(case):
    """na.build plus the composite deviation ["multi", [dev, dev, ...]] (counts as ONE deviation: a target that only
    exists as a combination, e.g. a capacitance-free line that also has an open switch)"""
    net = na.base(case["base"])
    for d in case.get("devs", ()):
        if d[0] == "multi":
            for d2 in d[1]:
                na.apply_dev(net, d2)
        else:
            na.apply_dev(net, d)
    return net

"""agentF helpers for C18: short-circuit base nets (netalpha bases completed with the data calc_sc needs for
every case/fault), deviation kinds of the short-circuit alphabet, and one calc_sc runner."""
import copy
import math

import numpy as np
import pandas as pd

import pandapower as pp
import pandapower.shortcircuit as sc

from mc import netalpha as na

_B = {}
BASES = ["R3", "M4", "T3", "W3"]
# buses where short-circuit bus elements are piled up (first = collision bus), second placement bus
HOT = {"R3": (2, 1), "M4": (2, 1), "T3": (2, 1), "W3": (1, 2)}


def base(name):
    if name not in _B:
        net = na.base(name)
        net.ext_grid["x0x_min"] = 1.2
        net.ext_grid["r0x0_min"] = 0.15
        if len(net.trafo3w):
            net.trafo3w["vector_group"] = "YNynd"
            for s, v in (("hv", 9.), ("mv", 10.), ("lv", 11.)):
                net.trafo3w["vk0_%s_percent" % s] = v
                net.trafo3w["vkr0_%s_percent" % s] = 0.3
        _B[name] = net
    return copy.deepcopy(_B[name])


def apply_dev(net, d):
    k = d[0]
    if k == "sc_eg":          # extra external grid: [k, bus, s_max, s_min, rx, in_service]
        _, bus, smax, smin, rx, ins = d
        pp.create_ext_grid(net, bus, vm_pu=1.0, s_sc_max_mva=smax, s_sc_min_mva=smin, rx_max=rx, rx_min=rx * 1.5,
                           x0x_max=1.0, r0x0_max=0.1, x0x_min=1.2, r0x0_min=0.15, in_service=ins)
    elif k == "sc_gen":       # synchronous generator: [k, bus, vn_ratio, sn_mva, pg_percent|None, in_service]
        _, bus, vnr, sn, pg, ins = d
        pp.create_gen(net, bus, 0.5 * sn, vm_pu=1.0, sn_mva=sn, vn_kv=float(net.bus.at[bus, "vn_kv"]) * vnr, xdss_pu=0.2,
                      rdss_ohm=0.05 * vnr, cos_phi=0.85, pg_percent=float("nan") if pg is None else pg, in_service=ins)
    elif k == "sc_psgen":     # power station unit: generator on the LV side of trafo t: [k, trafo, vn_ratio, oltc, pt|None]
        _, t, vnr, oltc, pt = d
        bus = int(net.trafo.at[t, "lv_bus"])
        sn = float(net.trafo.at[t, "sn_mva"])
        pp.create_gen(net, bus, 0.5 * sn, vm_pu=1.0, sn_mva=sn, vn_kv=float(net.bus.at[bus, "vn_kv"]) * vnr, xdss_pu=0.18,
                      rdss_ohm=0.02, cos_phi=0.8, power_station_trafo=t)
        if "power_station_unit" not in net.trafo.columns:
            net.trafo["power_station_unit"] = False
        net.trafo["power_station_unit"] = net.trafo["power_station_unit"].astype(object)
        net.trafo.at[t, "power_station_unit"] = True
        net.trafo["oltc"] = False if "oltc" not in net.trafo.columns else net.trafo["oltc"]
        net.trafo.at[t, "oltc"] = bool(oltc)
        if pt is not None:
            if "pt_percent" not in net.trafo.columns:
                net.trafo["pt_percent"] = float("nan")
            net.trafo.at[t, "pt_percent"] = pt
    elif k == "sc_sgen":      # full converter (current source): [k, bus, sn_mva, k, in_service]
        _, bus, sn, kk, ins = d
        pp.create_sgen(net, bus, 0.8 * sn, 0., sn_mva=sn, k=kk, in_service=ins)
    elif k == "sc_motor":     # asynchronous motor: [k, bus, pn_mech_mw, vn_ratio, in_service]
        _, bus, pm, vnr, ins = d
        pp.create_motor(net, bus, pm, 0.9, efficiency_percent=95., loading_percent=80., in_service=ins,
                        vn_kv=float(net.bus.at[bus, "vn_kv"]) * vnr, lrc_pu=5., rx=0.42, efficiency_n_percent=94., cos_phi_n=0.88)
    elif k == "sc_lv":        # LV feeder: 20/0.4 kV transformer at bus `at` + LV bus + LV cable + second LV bus
        _, at = d
        b1 = pp.create_bus(net, 0.4, name="lv1")
        b2 = pp.create_bus(net, 0.4, name="lv2")
        prm = dict(na.TR)
        prm.update(sn_mva=0.63, vn_hv_kv=float(net.bus.at[at, "vn_kv"]), vn_lv_kv=0.4, vk_percent=6., vkr_percent=1.1, pfe_kw=1.2,
                   i0_percent=0.2, vk0_percent=6., vkr0_percent=1.1, tap_step_percent=2.5, tap_max=2, tap_min=-2)
        pp.create_transformer_from_parameters(net, at, b1, **prm)
        pp.create_line_from_parameters(net, b1, b2, length_km=0.3, r_ohm_per_km=0.2, x_ohm_per_km=0.08, c_nf_per_km=260.,
                                       max_i_ka=0.27, r0_ohm_per_km=0.8, x0_ohm_per_km=0.3, c0_nf_per_km=150., endtemp_degree=70.)
    elif k == "sc_vn":        # transformer rated voltage unequal to the bus rated voltage: [k, trafo, side, factor]
        _, t, side, f = d
        net.trafo.at[t, "vn_%s_kv" % side] = float(net.trafo.at[t, "vn_%s_kv" % side]) * f
    elif k == "sc_reindex":   # relabel the buses (applied after all other deviations): "perm" permutation of 0..n-1, "gaps" permuted + gaps
        pass
    else:
        na.apply_dev(net, d)


def bus_map(n, mode):
    """old bus label -> new label.  perm: cyclic shift so that every label moves and the row order no longer matches the labels;
    gaps: additionally non-contiguous"""
    if mode == "perm":
        return {i: (i - 1) % n for i in range(n)}
    return {i: [7, 0, 12, 3, 9, 5, 20, 1][i] for i in range(n)}


def build(case):
    net = base(case["base"])
    for d in case.get("devs", ()):
        apply_dev(net, d)
    for d in case.get("devs", ()):
        if d[0] == "sc_reindex":
            pp.reindex_buses(net, bus_map(len(net.bus), d[1]))
    return net


def menu(b, tier="quick"):
    """short-circuit bus-element alphabet of base b (one value per branch of the anchored code)"""
    h0, h1 = HOT[b]
    big = 20. if b == "M4" else 1.
    m = [["sc_eg", h0, 500., 300., 0.2, True],
         ["sc_eg", 0, 700., 400., 0.3, True],            # second ext_grid on the bus of the base ext_grid
         ["sc_reindex", "perm"],
         ["sc_gen", h0, 1.0, 10. * big, None, True],
         ["sc_gen", h1, 1.05, 6. * big, 5., True],
         ["sc_sgen", h0, 4. * big, 1.2, True],
         ["sc_sgen", h1, 2. * big, 1.5, True],
         ["sc_motor", h0, 2. * big, 1.0, True],
         ["ward", h0, True],
         ["shunt", h0, 0.1 * big, -0.5 * big, 1, 1.0, True]]
    if b in ("R3", "T3"):     # bus 3 is fused with the collision bus 2: a second generator / ext_grid with other data on the same node
        m += [["sc_gen", 3, 1.05, 6., 5., True], ["sc_eg", 3, 300., 200., 0.15, True]]
    if b == "T3":
        m += [["sc_psgen", 0, 1.0, True, None], ["sc_psgen", 0, 1.05, False, None],
              ["set", "trafo", 0, "vector_group", "YNyn"], ["set", "trafo", 0, "vector_group", "Yzn"],
              ["set", "trafo", 0, "vector_group", "Yyn"]]
    if b in ("R3", "T3"):
        m += [["sc_lv", h0]]
    if tier == "thorough":
        m += [["sc_motor", h1, 1. * big, 0.95, True],
              ["sc_gen", h0, 1.0, 150., None, True],          # >= 100 MVA: R_Gf = 0.05 X''d branch
              ["sc_gen", h0, 1.0, 10. * big, None, False],
              ["sc_sgen", h0, 4. * big, 1.2, False],
              ["sc_eg", h1, 800., 800., 0.1, True],
              ["sc_reindex", "gaps"],
              ["set", "line", 0, "parallel", 2]]
        if b == "T3":
            m += [["sc_psgen", 0, 1.0, False, 4.], ["sc_vn", 0, "hv", 1.05], ["set", "trafo", 0, "parallel", 2],
                  ["set", "trafo", 0, "tap_pos", 3]]
        if b == "R3":
            m += [["line", 0, 2, 1, True], ["set", "switch", 0, "closed", False], ["set", "switch", 1, "closed", False]]
        if b == "W3":
            m += [["switch", 2, 0, "t3", False, 0.], ["set", "trafo3w", 0, "vector_group", "YNdyn"]]
    return m


def zero_sequence_only(d):
    """deviations that only change zero-sequence data (judged for fault 1ph only)"""
    return d[0] == "set" and d[3] == "vector_group"


def compatible(devs):
    """at most one power-station generator per unit transformer; one LV feeder"""
    n_ps = sum(1 for d in devs if d[0] == "sc_psgen")
    n_lv = sum(1 for d in devs if d[0] == "sc_lv")
    n_ri = sum(1 for d in devs if d[0] == "sc_reindex")
    return n_ps <= 1 and n_lv <= 1 and n_ri <= 1


def run_sc(net, **kw):
    """one calc_sc; returns (outcome, res_bus_sc DataFrame or None)"""
    try:
        sc.calc_sc(net, **kw)
    except Exception as e:          # natural failures are outcomes
        return type(e).__name__, None
    return "ok", net.res_bus_sc.copy()

"""./check <ID> [--tier quick|thorough] [--replay FILE]"""
import argparse
import importlib
import json
import os
import sys

from mc import core


def main():
    ap = argparse.ArgumentParser()
    ap.add_argument("prop")
    ap.add_argument("--tier", default=os.environ.get("VERIF_TIER", "quick"), choices=["quick", "thorough"])
    ap.add_argument("--replay")
    a = ap.parse_args()
    seed = int(os.environ.get("VERIF_SEED", "0") or 0)
    core.quiet()
    mod = importlib.import_module("checks." + a.prop)
    if a.replay:
        with open(a.replay) as fh:
            body = json.load(fh)
        vs = mod.replay(body["case"])
        for v in vs:
            print("VIOLATION property=%s replay=%s" % (a.prop, os.path.abspath(a.replay)))
            print("  clause=%s detail=%s" % (v.get("clause"), json.dumps(core.jsonable(v.get("detail")))[:600]))
        if not vs:
            print("replay: property holds on this case")
        return 1 if vs else 0
    rep = mod.explore(a.tier, seed)
    return core.finish(rep)


if __name__ == "__main__":
    sys.exit(main())

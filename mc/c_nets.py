"""agentC: extra base nets and deviation kinds for C06 (solver agreement) and C07 (unsupplied <=> NaN).

Everything is built from mc.netalpha (same parameters, same deviation encoding); only new nets / new
deviation kinds live here so that the shared module stays untouched.
"""
import copy

import numpy as np
import pandapower as pp

from mc import netalpha as na

_EXTRA = {}


def _mk_L1():
    """radial feeder with ONE loop: eg@0 - 1 - 2 - 3, spur 2 - 4, closing line 3 - 1 (loop 1-2-3)."""
    net = pp.create_empty_network(sn_mva=1.)
    for i in range(5):
        pp.create_bus(net, 20., name="b%d" % i)
    pp.create_ext_grid(net, 0, vm_pu=1.02, **na.EG)
    for k, (f, t) in enumerate([(0, 1), (1, 2), (2, 3), (2, 4), (3, 1)]):
        d = dict(na.LINE)
        d["length_km"] = 2.0 + 0.5 * k
        pp.create_line_from_parameters(net, f, t, **d, **na.SC_LINE)
    pp.create_load(net, 1, 0.6, 0.2)
    pp.create_load(net, 2, 0.8, 0.2)
    pp.create_load(net, 3, 1.0, 0.3)
    pp.create_load(net, 4, 0.5, 0.1)
    return net


def _mk_MI2():
    """two meshed (ring) islands, each with its own slack; slacks are the FIRST two buses (0, 1):
    island A ring 0-2-3-0, island B ring 1-4-5-1."""
    net = pp.create_empty_network(sn_mva=1.)
    for i in range(6):
        pp.create_bus(net, 20., name="b%d" % i)
    pp.create_ext_grid(net, 0, vm_pu=1.02, **na.EG)
    pp.create_ext_grid(net, 1, vm_pu=1.0, **na.EG)
    for k, (f, t) in enumerate([(0, 2), (2, 3), (3, 0), (1, 4), (4, 5), (5, 1)]):
        d = dict(na.LINE)
        d["length_km"] = 2.0 + 0.4 * k
        pp.create_line_from_parameters(net, f, t, **d, **na.SC_LINE)
    pp.create_load(net, 2, 1.0, 0.3)
    pp.create_load(net, 3, 0.7, 0.2)
    pp.create_load(net, 4, 1.2, 0.4)
    pp.create_load(net, 5, 0.5, 0.1)
    return net


def _mk_PL():
    """parallel lines: eg@0 = two separate line elements 0-1 (different length) =, then 1 - 2."""
    net = pp.create_empty_network(sn_mva=1.)
    for i in range(3):
        pp.create_bus(net, 20., name="b%d" % i)
    pp.create_ext_grid(net, 0, vm_pu=1.02, **na.EG)
    d = dict(na.LINE)
    pp.create_line_from_parameters(net, 0, 1, **d, **na.SC_LINE)
    d["length_km"] = 3.0
    pp.create_line_from_parameters(net, 0, 1, **d, **na.SC_LINE)
    pp.create_line_from_parameters(net, 1, 2, **na.LINE, **na.SC_LINE)
    pp.create_load(net, 1, 1.0, 0.3)
    pp.create_load(net, 2, 0.8, 0.2)
    return net


def _mk_TS():
    """phase shifting transformer (Dyn5, 150 degree) in the SECOND island: island A = eg@0 - line - 1 (20 kV);
    island B = eg@2 (110 kV) - line - 3 =trafo 110/20, shift 150= 4 - line - 5; loads at 1, 3, 4, 5.
    Moving island B's ext_grid to bus 4 / 5 feeds the transformer from its LV side (step-up)."""
    net = pp.create_empty_network(sn_mva=1.)
    for i, vn in enumerate([20., 20., 110., 110., 20., 20.]):
        pp.create_bus(net, vn, name="b%d" % i)
    pp.create_ext_grid(net, 0, vm_pu=1.0, **na.EG)
    pp.create_ext_grid(net, 2, vm_pu=1.02, **na.EG)
    pp.create_line_from_parameters(net, 0, 1, **na.LINE, **na.SC_LINE)
    pp.create_line_from_parameters(net, 2, 3, **na.LINE110, **na.SC_LINE)
    prm = dict(na.TR)
    prm["shift_degree"] = 150.
    pp.create_transformer_from_parameters(net, 3, 4, **prm)
    pp.create_line_from_parameters(net, 4, 5, **na.LINE, **na.SC_LINE)
    pp.create_load(net, 1, 1.0, 0.3)
    pp.create_load(net, 3, 6.0, 1.5)
    pp.create_load(net, 4, 1.0, 0.2)
    pp.create_load(net, 5, 2.5, 0.8)
    return net


def _mk_G2():
    """two generators with STAGGERED reactive limits on a 110 kV feeder eg@0 - 1 - 2 - 3: gen0@2 (+-4 Mvar) is
    beyond its upper limit in the first pass of a q-limit loop, gen1@3 (17 Mvar unlimited, max 22 Mvar) only after gen0 was fixed."""
    net = pp.create_empty_network(sn_mva=1.)
    for i in range(4):
        pp.create_bus(net, 110., name="b%d" % i)
    pp.create_ext_grid(net, 0, vm_pu=1.0, **na.EG)
    for k, (f, t) in enumerate([(0, 1), (1, 2), (2, 3)]):
        d = dict(na.LINE110)
        d["length_km"] = 25. + 5 * k
        pp.create_line_from_parameters(net, f, t, **d, **na.SC_LINE)
    pp.create_load(net, 1, 35., 10.)
    pp.create_load(net, 3, 30., 14.)
    for bus, lim in ((2, (-4., 4.)), (3, (-6., 22.))):
        pp.create_gen(net, bus, 12., vm_pu=1.03, min_q_mvar=lim[0], max_q_mvar=lim[1], vn_kv=110., xdss_pu=0.2,
                      rdss_ohm=0.05, cos_phi=0.9, sn_mva=20.)
    return net


_MAKERS = {"L1": _mk_L1, "MI2": _mk_MI2, "PL": _mk_PL, "TS": _mk_TS, "G2": _mk_G2}
HOT = dict(na.HOT)
HOT.update({"L1": (3, 4), "MI2": (3, 5), "PL": (2, 1), "TS": (5, 4), "G2": (1, 3)})


def base(name):
    if name in _MAKERS:
        if name not in _EXTRA:
            _EXTRA[name] = _MAKERS[name]()
        return copy.deepcopy(_EXTRA[name])
    return na.base(name)


def apply_dev(net, d):
    k = d[0]
    if k == "impedance_is":          # impedance with explicit in_service flag
        _, fb, tb, ins = d
        pp.create_impedance(net, fb, tb, 0.02, 0.05, 10., in_service=ins)
    elif k == "shunt_pair":          # two shunts whose ratings cancel in total (p, q at bus a; -p, -q at bus b)
        _, a, b, p, q = d
        pp.create_shunt(net, a, q, p)
        pp.create_shunt(net, b, -q, -p)
    elif k == "trafo3w_sw":          # new switch at a trafo3w side given by name
        _, side, closed = d
        pp.create_switch(net, int(net.trafo3w.at[0, side + "_bus"]), 0, "t3", closed=closed)
    else:
        na.apply_dev(net, d)


def build(case):
    net = base(case["base"])
    for d in case.get("devs", ()):
        apply_dev(net, d)
    return net


# ----------------------------------------------------------------------------------------------
# C07: "dressing" = bus elements sitting at the possibly dead buses, and the switching / status menus
# ----------------------------------------------------------------------------------------------
DRESSINGS = ["D0", "D1", "D2"]


def dress(net, basename, dressing):
    """D0: bare base net.  D1: one of every constant-power / shunt-type element at EVERY bus of the base net
    (any of them can end up dead) plus out-of-service ones.  D2: D1 plus ZIP loads, a PV generator, an xward and
    out-of-service gen / xward at the collision buses."""
    if dressing == "D0":
        return
    hot = [int(b) for b in net.bus.index]
    s = 20. if basename == "M4" else 1.
    for b in hot:
        for d in (["load", b, 0.5 * s, 0.2 * s, "P", 1., True], ["sgen", b, 0.3 * s, -0.1 * s, 1., True],
                  ["storage", b, 0.2 * s, 0.1 * s, 1., True], ["motor", b, 0.2 * s, True],
                  ["shunt", b, 0.05 * s, -0.2 * s, 1, 1.0, True], ["ward", b, True],
                  ["asym_load", b], ["asym_sgen", b]):
            na.apply_dev(net, d)
    hot = HOT[basename]
    b0 = hot[0]
    for d in (["load", b0, 0.4 * s, 0.1 * s, "P", 1., False], ["sgen", b0, 0.4 * s, 0.1 * s, 1., False],
              ["shunt", b0, 0.1 * s, 0.2 * s, 1, 1.0, False], ["ward", b0, False]):
        na.apply_dev(net, d)
    if dressing == "D2":
        b1 = hot[-1]
        for d in (["load", b0, 0.3 * s, 0.1 * s, "M2", 1., True], ["gen", b1, 0.3 * s, 1.01, "wide", False, True],
                  ["xward", b0, True], ["gen", b0, 0.2 * s, 1.01, "wide", False, False], ["xward", b0, False],
                  ["load", b1, 0.2 * s, 0.1 * s, "Z", 1., True]):
            na.apply_dev(net, d)


def switching_menu(b):
    """all switch positions (bus-bus, line, trafo, trafo3w; existing and new switches), in_service of buses,
    branches, ext_grids and slack gens of base net b.  One entry per branch of the switch/status handling in
    auxiliary._check_connectivity/_select_is_elements, build_branch._switch_branches/_branches_with_oos_buses,
    build_bus (fused buses) and topology.create_nxgraph."""
    s = 20. if b == "M4" else 1.
    if b == "R3":
        return [["set", "switch", 0, "closed", False], ["set", "switch", 0, "z_ohm", 0.5],
                ["set", "switch", 1, "closed", False], ["switch", 2, 1, "l", False, 0.], ["switch", 0, 0, "l", False, 0.],
                ["switch", 1, 0, "l", True, 0.],
                ["set", "line", 0, "in_service", False], ["set", "line", 1, "in_service", False],
                ["set", "bus", 1, "in_service", False], ["set", "bus", 2, "in_service", False],
                ["set", "bus", 3, "in_service", False], ["set", "bus", 0, "in_service", False],
                ["set", "ext_grid", 0, "in_service", False],
                ["gen", 3, 0.5, 1.01, "wide", True, True], ["gen", 3, 0.5, 1.01, "wide", True, False],
                ["ext_grid", 2, 1.01, 0., True],
                ["bus", 2, True], ["bus", 1, False],
                ["impedance_is", 1, 3, True], ["impedance_is", 0, 3, False]]
    if b == "M4":
        return [["set", "switch", 0, "closed", False], ["switch", 0, 0, "l", False, 0.], ["switch", 0, 3, "l", False, 0.],
                ["switch", 2, 4, "l", False, 0.], ["switch", 3, 2, "l", False, 0.],
                ["set", "line", 0, "in_service", False], ["set", "line", 1, "in_service", False],
                ["set", "line", 2, "in_service", False], ["set", "line", 3, "in_service", False],
                ["set", "line", 4, "in_service", False],
                ["set", "bus", 1, "in_service", False], ["set", "bus", 2, "in_service", False],
                ["set", "bus", 3, "in_service", False],
                ["set", "ext_grid", 0, "in_service", False],
                ["gen", 2, 10., 1.01, "wide", True, True], ["gen", 3, 10., 1.01, "wide", True, False],
                ["switch", 1, 3, "b", True, 0.], ["switch", 1, 3, "b", True, 2.0], ["switch", 1, 3, "b", False, 0.]]
    if b == "T3":
        return [["set", "switch", 0, "closed", False], ["set", "switch", 0, "z_ohm", 0.5],
                ["set", "switch", 1, "closed", False], ["switch", 1, 0, "t", False, 0.], ["switch", 1, 0, "t", True, 0.],
                ["switch", 1, 0, "l", False, 0.], ["switch", 2, 0, "l", False, 0.],
                ["set", "trafo", 0, "in_service", False], ["set", "line", 0, "in_service", False],
                ["set", "bus", 1, "in_service", False], ["set", "bus", 2, "in_service", False],
                ["set", "bus", 3, "in_service", False],
                ["set", "ext_grid", 0, "in_service", False],
                ["gen", 3, 0.5, 1.01, "wide", True, True], ["gen", 2, 0.5, 1.01, "wide", True, False],
                ["ext_grid", 2, 1.01, 0., True], ["trafo", 0, 1], ["bus", 2, True]]
    if b == "W3":
        return [["set", "switch", 0, "closed", False], ["trafo3w_sw", "hv", False], ["trafo3w_sw", "lv", False],
                ["trafo3w_sw", "lv", True],
                ["set", "trafo3w", 0, "in_service", False], ["set", "line", 0, "in_service", False],
                ["switch", 1, 0, "l", False, 0.], ["switch", 3, 0, "l", False, 0.],
                ["set", "bus", 1, "in_service", False], ["set", "bus", 2, "in_service", False],
                ["set", "bus", 3, "in_service", False], ["set", "bus", 0, "in_service", False],
                ["set", "ext_grid", 0, "in_service", False],
                ["gen", 3, 0.5, 1.01, "wide", True, True], ["gen", 2, 0.5, 1.01, "wide", True, True],
                ["gen", 1, 0.5, 1.01, "wide", True, False],
                ["switch", 1, 3, "b", True, 0.], ["switch", 1, 3, "b", True, 0.5]]
    if b == "I2":
        return [["set", "switch", 0, "closed", True], ["switch", 3, 2, "l", False, 0.], ["switch", 0, 0, "l", False, 0.],
                ["switch", 3, 1, "l", False, 0.],
                ["set", "ext_grid", 0, "in_service", False], ["set", "ext_grid", 1, "in_service", False],
                ["set", "line", 0, "in_service", False], ["set", "line", 1, "in_service", False],
                ["set", "line", 2, "in_service", False],
                ["set", "bus", 1, "in_service", False], ["set", "bus", 3, "in_service", False],
                ["set", "bus", 2, "in_service", False], ["set", "bus", 0, "in_service", False],
                ["gen", 3, 0.5, 1.01, "wide", True, True], ["gen", 1, 0.5, 1.01, "wide", True, False],
                ["switch", 1, 3, "b", True, 0.], ["switch", 1, 3, "b", True, 0.5], ["impedance_is", 1, 3, True]]
    raise KeyError(b)


_DRESSED = {}


def dressed_base(basename, dressing):
    """prebuilt (cached) base net with its dressing; deviations are applied afterwards (they never refer to
    indices of element tables the dressing fills)."""
    key = (basename, dressing)
    if key not in _DRESSED:
        net = base(basename)
        dress(net, basename, dressing)
        _DRESSED[key] = net
    return copy.deepcopy(_DRESSED[key])

"""agentC: C06 machinery - the full solver option product, result snapshots, family tolerances and the
topology tokens / defect predicates used by known-finding signatures."""
import copy
import itertools

import numpy as np
import pandapower as pp

ALGS = ["nr", "iwamoto_nr", "bfsw", "gs", "fdbx", "fdxb"]
NUMBA = [True, False]
LS2G = [False, True]
INITS = ["flat", "dc", "results"]
NR_FAMILY = ("nr", "iwamoto_nr")

# (result table, power columns) compared with the default NR solution
FLOWS = [
    ("line", ["p_from_mw", "q_from_mvar", "p_to_mw", "q_to_mvar"]),
    ("trafo", ["p_hv_mw", "q_hv_mvar", "p_lv_mw", "q_lv_mvar"]),
    ("trafo3w", ["p_hv_mw", "q_hv_mvar", "p_mv_mw", "q_mv_mvar", "p_lv_mw", "q_lv_mvar"]),
    ("impedance", ["p_from_mw", "q_from_mvar", "p_to_mw", "q_to_mvar"]),
    ("ext_grid", ["p_mw", "q_mvar"]),
    ("gen", ["p_mw", "q_mvar"]),
]

TOL_V = {"nr": 1e-7, "loose": 1e-5}        # p.u., complex difference (DESIGN 2.5)
TOL_S_ABS, TOL_S_REL = 1e-5, 1e-7          # MVA: max(1e-5, 100*tolerance_mva) with tolerance_mva = 1e-8


QLIMS = [False, True]


def configs():
    """the full Cartesian option product, deterministic order (72 configurations x enforce_q_lims {F, T})"""
    return [{"alg": a, "numba": n, "ls2g": l, "init": i, "qlim": q}
            for q, a, n, l, i in itertools.product(QLIMS, ALGS, NUMBA, LS2G, INITS)]


def cfg_name(c):
    return "%s|numba=%s|ls2g=%s|init=%s%s" % (c["alg"], c["numba"], c["ls2g"], c["init"], "|qlim" if c.get("qlim") else "")


def snapshot(net):
    vm = net.res_bus.vm_pu.values.astype(float)
    va = net.res_bus.va_degree.values.astype(float)
    out = {"V": vm * np.exp(1j * np.deg2rad(va))}
    for tab, cols in FLOWS:
        if len(net[tab]):
            out[tab] = net["res_" + tab][cols].values.astype(float).copy()
    return out


def compare(ref, alt, family):
    """returns list of (what, worst deviation, tolerance, where) for every table that disagrees"""
    bad = []
    tv = TOL_V["nr" if family in NR_FAMILY else "loose"]
    a, b = ref["V"], alt["V"]
    na_, nb_ = np.isnan(a), np.isnan(b)
    if (na_ != nb_).any():
        bad.append(("res_bus.nan_pattern", float("nan"), 0., [int(i) for i in np.nonzero(na_ != nb_)[0]]))
    else:
        d = np.abs(np.where(na_, 0, a - b))
        if d.size and d.max() > tv:
            bad.append(("res_bus.V", float(d.max()), tv, int(d.argmax())))
    for tab, cols in FLOWS:
        if tab not in ref:
            continue
        x, y = ref[tab], alt.get(tab)
        if y is None or x.shape != y.shape:
            bad.append(("res_%s.shape" % tab, float("nan"), 0., None))
            continue
        nx_, ny_ = np.isnan(x), np.isnan(y)
        if (nx_ != ny_).any():
            bad.append(("res_%s.nan_pattern" % tab, float("nan"), 0., None))
            continue
        d = np.abs(np.where(nx_, 0, x - y))
        tol = TOL_S_ABS + TOL_S_REL * np.abs(np.where(nx_, 0, x))
        if d.size and (d > tol).any():
            i = np.unravel_index((d - tol).argmax(), d.shape)
            bad.append(("res_%s.%s" % (tab, cols[i[1]]), float(d[i]), float(tol[i]), int(i[0])))
    return bad


def other_valid_root(ref_net, alt_net, tol=1e-6, spec_from_alt=False):
    """Is the alternative's voltage vector ANOTHER exact solution of the reference's own power flow equations?
    Evaluated with the REFERENCE run's internal Ybus / Sbus / bus types (so a wrongly built admittance matrix in the
    alternative path can never pass): mismatch at PQ buses (P and Q), at PV buses (P and |V|) and the slack voltage."""
    try:
        ri, ai = ref_net._ppc["internal"], alt_net._ppc["internal"]
        Y, S, Vr, Va = ri["Ybus"], ri["Sbus"], ri["V"], ai["V"]
        if Vr.shape != Va.shape:
            return False
        pq, pv, rf = ri["pq"], ri["pv"], ri["ref"]
        if spec_from_alt:
            # enforce_q_lims: which generators end up limited (PV -> PQ, Q moved into Sbus) depends on the root the
            # iteration approaches; injections and bus types are those of the alternative's LAST pass, the admittance
            # matrix is still the reference's
            S, pq, pv = ai["Sbus"], ai["pq"], ai["pv"]
        mis = Va * np.conj(Y * Va) - S
        vset = np.abs(Vr[pv])
        ok = np.abs(mis[pq]).max(initial=0.) < tol and np.abs(mis[pv].real).max(initial=0.) < tol and \
            (spec_from_alt or np.abs(np.abs(Va[pv]) - vset).max(initial=0.) < tol) and \
            np.abs(Va[rf] - Vr[rf]).max(initial=0.) < tol
        return bool(ok) and bool(np.abs(Va - Vr).max() > 1e-3)
    except Exception:
        return False


def run_alt(net, c):
    """run one alternative configuration on net (which already holds default NR results when init=results).
    returns (outcome, message)"""
    try:
        pp.runpp(net, algorithm=c["alg"], numba=c["numba"], lightsim2grid=c["ls2g"], init=c["init"],
                 enforce_q_lims=bool(c.get("qlim")))
    except Exception as e:
        return type(e).__name__, str(e)[:200]
    if not net.converged:
        return "not_converged", ""
    return "ok", ""


# ----------------------------------------------------------------------------------------------
# topology facts of the solved reference net (tokens for signatures)
# ----------------------------------------------------------------------------------------------
def topo_facts(net):
    """computed from the internal ppci of the converged reference run: islands (connected components of
    in-service ppci branches), independent loops per island, parallel branches, number of slack buses per
    island and whether the reference buses are the leading ppci buses."""
    ppci = net._ppc["internal"]
    bus, branch = ppci["bus"], ppci["branch"]
    n = bus.shape[0]
    f = branch[:, 0].real.astype(int)
    t = branch[:, 1].real.astype(int)
    ref = [int(i) for i in np.nonzero(bus[:, 1] == 3)[0]]
    parent = list(range(n))

    def find(x):
        while parent[x] != x:
            parent[x] = parent[parent[x]]
            x = parent[x]
        return x
    for a, b in zip(f, t):
        ra, rb = find(a), find(b)
        if ra != rb:
            parent[rb] = ra
    comp = {}
    for i in range(n):
        comp.setdefault(find(i), {"buses": 0, "branches": 0, "refs": 0})["buses"] += 1
    for a in f:
        comp[find(a)]["branches"] += 1
    for r in ref:
        comp[find(r)]["refs"] += 1
    pairs = {}
    for a, b in zip(f, t):
        key = (min(a, b), max(a, b))
        pairs[key] = pairs.get(key, 0) + 1
    loops = [c["branches"] - c["buses"] + 1 for c in comp.values()]
    nonref = [i for i in range(n) if i not in ref]
    return {
        "n_islands": len(comp),
        "loops_per_island": sorted(loops),
        "n_meshed_islands": sum(1 for l in loops if l > 0),
        "max_loops": max(loops) if loops else 0,
        "parallel_branch": any(v > 1 for v in pairs.values()),
        "self_loop_branch": any(a == b for a, b in pairs),
        "one_slack_per_island": all(c["refs"] == 1 for c in comp.values()),
        "ref_leading": sorted(ref) == list(range(len(ref))),
        "n_ref": len(ref),
        "min_nonref": min(nonref) if nonref else None,
        "n_pv": int((bus[:, 1] == 2).sum()),
        "shift": bool((branch[:, 9].real != 0).any()),
        "asym_branch": bool((branch[:, [21, 22, 24, 25]] != 0).any()),   # BR_R_ASYM, BR_X_ASYM, BR_G_ASYM, BR_B_ASYM
    }


def topo_tokens(f):
    toks = ["n_islands=%d" % f["n_islands"] if f["n_islands"] < 2 else "n_islands>=2",
            "n_meshed_islands=%d" % f["n_meshed_islands"] if f["n_meshed_islands"] < 2 else "n_meshed_islands>=2"]
    if f["parallel_branch"]:
        toks.append("parallel_branch")
    if not f["ref_leading"]:
        toks.append("ref_not_leading")
    if not f["one_slack_per_island"]:
        toks.append("not_one_slack_per_island")
    if f["n_pv"]:
        toks.append("pv_bus")
    if f["shift"]:
        toks.append("phase_shift")
    if f["asym_branch"]:
        toks.append("asym_branch")
    if f["n_ref"] >= 2:
        toks.append("n_ref>=2")
    return toks


def explain_bfsw_error(f, exc, msg):
    """predicates that recompute what the recorded bfsw defects do (pandapower/pf/run_bfswpf.py,
    _make_bibc_bcbv):
    * columns of BIBC/BCBV are `bus index - number of slacks`: any non-reference bus with a ppci index smaller
      than the number of reference buses gives a negative column -> ValueError('negative axis 1 index: <min
      non-ref index - n_ref>');
    * branches are keyed by their (from, to) pair, so a second branch between the same two buses never gets a
      loop column -> the loop block N of the DLF matrix is singular -> LinAlgError;
    * loop columns are numbered `nobus + loop_i` with loop_i restarting in every island and the Kron reduction
      splits the DLF matrix at nobus-1 instead of nobus-n_ref -> with >= 2 slacks and a loop anywhere the blocks
      are mis-sized (LinAlgError: singular N, or ValueError: matmul dimension mismatch)."""
    out = []
    if exc == "ValueError" and not f["ref_leading"] and f["min_nonref"] is not None and \
            msg.startswith("negative axis 1 index: %d" % (f["min_nonref"] - f["n_ref"])):
        out.append("explained=bfsw_ref_not_leading")
    if exc == "LinAlgError" and f["parallel_branch"] and f["ref_leading"]:
        out.append("explained=bfsw_parallel_branch")
    if exc in ("LinAlgError", "ValueError") and f["n_ref"] >= 2 and f["n_meshed_islands"] >= 1 and f["ref_leading"] \
            and not f["parallel_branch"] and (exc == "LinAlgError" or msg.startswith("matmul: dimension mismatch")):
        out.append("explained=bfsw_loops_with_several_slacks")
    return out


def warm_all():
    """compile every numba kernel used by any configuration in the parent (before forking): all algorithms,
    with/without PV buses, one/two slacks, shunts, both back-ends.  Without this every forked worker would
    JIT-compile them again."""
    import contextlib
    import io
    from mc import c_nets
    with contextlib.redirect_stdout(io.StringIO()):
        for b, devs in (("R3", []), ("R3", [["gen", 2, 1.0, 1.01, "wide", False, True]]),
                        ("R3", [["shunt", 2, 0.1, -0.5, 1, 1.0, True]]), ("I2", []), ("W3", []),
                        ("I2", [["gen", 3, 0.5, 1.01, "wide", False, True]]), ("G2", []), ("TS", [])):
            net0 = c_nets.build({"base": b, "devs": devs})
            ref = copy.deepcopy(net0)
            try:
                pp.runpp(ref)
            except Exception:
                continue
            for c in configs():
                run_alt(copy.deepcopy(ref if c["init"] == "results" else net0), c)

"""C20: the 'full' network - every element table of create_empty_network() non-empty, plus the non-table
content a pandapowerNet can carry (std types, controllers, groups, characteristics, user_pf_options, geodata).

Built on the R3 shape of mc/netalpha (ext_grid@0 -l0- 1 -l1- 2 =bb= 3) extended with a 110 kV side (trafo), a
three-winding transformer and one specimen of every other element kind.  FACTS / DC elements are present but
out of service so that the power flow of the loaded copy is a plain AC NR run (they are the subject of other
properties); everything else is in service and takes part in runpp.
"""
import copy

import numpy as np
import pandas as pd

import pandapower as pp
from pandapower.control import ConstControl, ContinuousTapControl
from pandapower.control.util.characteristic import Characteristic, SplineCharacteristic
from pandapower.groups import create_group
from pandapower.timeseries import DFData

from mc import netalpha as na

_FULL = None


def _mk_full():
    net = pp.create_empty_network(name="full", sn_mva=1.)
    # buses 0..3: 20 kV R3 core, 4: 110 kV, 5: 10 kV, 6: 20 kV spare
    for i in range(4):
        pp.create_bus(net, 20., name="b%d" % i, geodata=(float(i), 0.5 * i), zone="z%d" % (i % 2))
    pp.create_bus(net, 110., name="hv", geodata=(-1., 0.), type="n")
    pp.create_bus(net, 10., name="lv10", geodata=(2., 2.))
    pp.create_bus(net, 20., name="spare", geodata=(5., 5.), in_service=False)
    pp.create_ext_grid(net, 4, vm_pu=1.02, name="grid", **na.EG)
    pp.create_transformer_from_parameters(net, 4, 0, name="tr", **na.TR)
    pp.create_line_from_parameters(net, 0, 1, name="l0", geodata=[(0., 0.), (0.5, 0.1), (1., 0.5)], **na.LINE, **na.SC_LINE)
    pp.create_line_from_parameters(net, 1, 2, name="l1", geodata=[(1., 0.5), (2., 1.)], **na.LINE, **na.SC_LINE)
    pp.create_switch(net, 2, 3, "b", closed=True, name="bb")
    pp.create_switch(net, 1, 1, "l", closed=True, type="CB", name="ls")
    pp.create_transformer3w_from_parameters(net, 4, 1, 5, name="t3", **na.TR3)
    pp.create_switch(net, 4, 0, "t", closed=True, name="ts")
    pp.create_switch(net, 5, 0, "t3", closed=True, name="t3s")
    pp.create_load(net, 1, 1.0, 0.3, name="ld0", type="wye")
    pp.create_load(net, 5, 0.5, 0.1, name="ld1")
    pp.create_sgen(net, 2, 0.4, 0.05, name="sg", sn_mva=1., k=1.2, type="PV")
    pp.create_motor(net, 1, 0.1, 0.9, name="mot", efficiency_percent=95., loading_percent=80., vn_kv=20., lrc_pu=5., rx=0.4,
                    efficiency_n_percent=95., cos_phi_n=0.9)
    pp.create_asymmetric_load(net, 2, 0.03, 0.02, 0.01, 0.005, 0.004, 0.003, name="al")
    pp.create_asymmetric_sgen(net, 2, 0.01, 0.02, 0.03, 0.001, 0.002, 0.003, name="as")
    pp.create_storage(net, 3, 0.1, 10., q_mvar=0.02, name="sto", soc_percent=50.)
    pp.create_gen(net, 3, 0.5, vm_pu=1.01, name="g", min_q_mvar=-5., max_q_mvar=5., min_p_mw=0., max_p_mw=2., controllable=True,
                  sn_mva=2., vn_kv=20., xdss_pu=0.2, rdss_ohm=0.05, cos_phi=0.9)
    pp.create_shunt(net, 1, 0.1, 0.01, name="sh", step=1, max_step=3)
    pp.create_impedance(net, 1, 3, 0.02, 0.05, 10., name="imp")
    pp.create_dcline(net, 0, 2, 0.1, 1.0, 0.01, 1.01, 1.01, name="dcl", max_p_mw=5., min_q_from_mvar=-5., min_q_to_mvar=-5.,
                     max_q_from_mvar=5., max_q_to_mvar=5.)
    pp.create_ward(net, 1, 0.04, 0.01, 0.03, -0.02, name="w")
    pp.create_xward(net, 2, 0.04, 0.01, 0.03, -0.02, 0.5, 2.0, 1.01, name="xw")
    # FACTS / DC specimens (out of service)
    pp.create_svc(net, 2, 1., -10., 1.0, 100., name="svc", in_service=False)
    pp.create_ssc(net, 2, 0.1, 1.0, name="ssc", in_service=False)
    pp.create_tcsc(net, 1, 2, 1., -10., 0.1, 100., name="tcsc", in_service=False)
    for i in range(2):
        pp.create_bus_dc(net, 50., name="dc%d" % i, in_service=False)
    pp.create_line_dc_from_parameters(net, 0, 1, 1., 0.1, 1., name="ldc", in_service=False)
    pp.create_vsc(net, 2, 0, 0.1, 1., 0.1, name="vsc", in_service=False)
    pp.create_source_dc(net, 1, 1.0, name="sdc", in_service=False)
    pp.create_load_dc(net, 1, 0.1, name="lddc", in_service=False)
    pp.create_b2b_vsc(net, 2, 0, 1, 0.1, 1., 0.1, name="b2b", in_service=False)
    if hasattr(pp, "create_bi_vsc"):
        pp.create_bi_vsc(net, 2, 0, 1, 0.1, 1., 0.1, name="bi", in_service=False)
    # measurements, costs
    pp.create_measurement(net, "v", "bus", 1.01, 0.01, 1, name="mv")
    pp.create_measurement(net, "p", "line", 0.5, 0.02, 0, side="from", name="mp")
    pp.create_measurement(net, "q", "trafo", 0.1, 0.02, 0, side="hv")
    pp.create_poly_cost(net, 0, "gen", 1.5, cp0_eur=0.1, cp2_eur_per_mw2=0.01)
    pp.create_poly_cost(net, 0, "ext_grid", 2.5)
    pp.create_pwl_cost(net, 0, "sgen", [[0., 0.2, 1.], [0.2, 0.4, 2.]])
    # std types
    pp.create_std_type(net, {"r_ohm_per_km": 0.21, "x_ohm_per_km": 0.31, "c_nf_per_km": 11., "max_i_ka": 0.3, "type": "cs",
                             "q_mm2": 95, "alpha": 0.004}, "my_line", element="line")
    pp.create_std_type(net, dict(na.TR, **{"sn_mva": 16.}), "my_trafo", element="trafo")
    pp.create_line(net, 0, 2, 1.5, "my_line", name="lstd")
    # characteristics
    Characteristic(net, [0.9, 1.0, 1.1], [-1., 0., 1.])
    SplineCharacteristic(net, [-2, -1, 0, 1, 2], [0.9, 0.95, 1.0, 1.05, 1.1])
    # controllers
    prof = pd.DataFrame({"ld0": [1.0, 1.1, 0.9], "sg": [0.4, 0.3, 0.5]})
    ds = DFData(prof)
    ConstControl(net, "load", "p_mw", element_index=[0], profile_name=["ld0"], data_source=ds)
    ContinuousTapControl(net, 0, 1.0, tol=1e-3, in_service=False)
    # groups
    create_group(net, ["bus", "line"], [[1, 2], [0]], name="grp_idx")
    create_group(net, ["load"], [["ld0", "ld1"]], name="grp_ref", reference_columns="name")
    # options
    pp.set_user_pf_options(net, tolerance_mva=1e-9, max_iteration=25, init="dc", trafo_model="pi")
    return net


def clone(net):
    """deep copy that also copies list / dict cells of object columns (pandapowerNet.__deepcopy__ shares them)"""
    n = copy.deepcopy(net)
    for k, v in n.items():
        if isinstance(v, pd.DataFrame) and len(v):
            for c in v.columns:
                s = v[c]
                if isinstance(s, pd.Series) and s.dtype == object and any(isinstance(x, (list, dict)) for x in s.values):
                    v[c] = pd.Series([copy.deepcopy(x) for x in s.values], index=s.index, dtype=object)
    return n


def full():
    global _FULL
    if _FULL is None:
        _FULL = _mk_full()
    return clone(_FULL)


def element_tables(net):
    """names of the (non-result, non-internal) DataFrame entries"""
    return [k for k, v in net.items() if isinstance(v, pd.DataFrame) and not k.startswith("_") and not k.startswith("res_")]

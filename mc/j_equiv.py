"""C28 helpers (agentJ): nets, (internal, boundary, external) split enumeration, snapshots, voltage comparison."""
import copy
import itertools

import numpy as np
import pandas as pd

import pandapower as pp
from mc import netalpha as na

_BASES = {}


def _mk_G6():
    """110 kV ring 0-1-2-3-0 + chord 0-2, trafo 3->4 (110/20), 20 kV line 4-5; ext_grid@0, PV gen@2, sgens@1,5,
    shunts@3,4, loads on 1..5."""
    net = pp.create_empty_network(sn_mva=1.)
    for i in range(4):
        pp.create_bus(net, 110., name="b%d" % i)
    for i in (4, 5):
        pp.create_bus(net, 20., name="b%d" % i)
    pp.create_ext_grid(net, 0, vm_pu=1.01, name="eg0", **na.EG)
    for k, (f, t) in enumerate([(0, 1), (1, 2), (2, 3), (3, 0), (0, 2)]):
        d = dict(na.LINE110)
        d["length_km"] = 20. + 5 * k
        pp.create_line_from_parameters(net, f, t, name="l%d" % k, **d)
    pp.create_transformer_from_parameters(net, 3, 4, name="t0", **na.TR)
    pp.create_line_from_parameters(net, 4, 5, name="l5", **na.LINE)
    for i, (b, p, q) in enumerate([(1, 30., 8.), (2, 25., 6.), (3, 15., 4.), (4, 5., 1.5), (5, 3., 1.)]):
        pp.create_load(net, b, p, q, name="ld%d" % i)
    pp.create_gen(net, 2, 20., vm_pu=1.02, min_q_mvar=-50, max_q_mvar=50, sn_mva=30., name="g0")
    pp.create_sgen(net, 1, 10., 2., sn_mva=12., name="sg0")
    pp.create_sgen(net, 5, 2., 0.3, sn_mva=3., name="sg1")
    pp.create_shunt(net, 3, -5., 0.1, name="sh0")
    pp.create_shunt(net, 4, 0.8, 0.0, name="sh1")
    return net


def _mk_M4():
    net = na.base("M4")
    net.line["name"] = ["l%d" % i for i in net.line.index]
    net.load["name"] = ["ld%d" % i for i in net.load.index]
    net.ext_grid["name"] = "eg0"
    return net


_MAKERS = {"M4": _mk_M4, "G6": _mk_G6}


def base(name):
    if name not in _BASES:
        _BASES[name] = _MAKERS[name]()
    return copy.deepcopy(_BASES[name])


def apply_dev(net, d):
    k = d[0]
    if k == "gen_slack":          # the only slack is a generator (ext_grid replaced)
        _, bus = d
        eg = net.ext_grid.index[net.ext_grid.bus == bus]
        vm = float(net.ext_grid.vm_pu.loc[eg].iloc[0])
        net.ext_grid.drop(eg, inplace=True)
        pp.create_gen(net, bus, 0., vm_pu=vm, slack=True, sn_mva=500., name="gslack")
    elif k == "ext_ward":
        _, bus = d
        pp.create_ward(net, bus, 2.0, 0.5, 1.0, -0.8, name="w_orig")
    elif k == "ext_xward":
        _, bus = d
        pp.create_xward(net, bus, 2.0, 0.5, 1.0, -0.8, 0.5, 5.0, 1.0, name="xw_orig")
    elif k == "bb":               # extra bus fused to `bus` through a closed bus-bus switch, with a load
        _, bus = d
        nb = pp.create_bus(net, float(net.bus.at[bus, "vn_kv"]), name="b%d" % len(net.bus))
        pp.create_switch(net, bus, nb, "b", closed=True)
        pp.create_load(net, nb, 1.0, 0.2, name="ld_bb")
    elif k == "bb2":              # second busbar fused to `bus` (closed bus-bus switch) with a load and a line to bus `to`
        _, bus, to = d
        nb = pp.create_bus(net, float(net.bus.at[bus, "vn_kv"]), name="b%d" % len(net.bus))
        pp.create_switch(net, bus, nb, "b", closed=True)
        prm = dict(na.LINE110 if float(net.bus.at[bus, "vn_kv"]) > 50 else na.LINE)
        pp.create_line_from_parameters(net, nb, to, name="l_bb2", **prm)
        pp.create_load(net, nb, 2.0, 0.5, name="ld_bb2")
    elif k == "bbo":              # busbar coupled to `bus` by an OPEN bus-bus switch, fed through a line from `to`,
        _, bus, to = d            # with load and sgen of its own (injections on both sides of the open switch)
        nb = pp.create_bus(net, float(net.bus.at[bus, "vn_kv"]), name="b%d" % len(net.bus))
        pp.create_switch(net, bus, nb, "b", closed=False)
        prm = dict(na.LINE110 if float(net.bus.at[bus, "vn_kv"]) > 50 else na.LINE)
        pp.create_line_from_parameters(net, nb, to, name="l_bbo", **prm)
        pp.create_load(net, nb, 6.0, 1.5, name="ld_bbo")
        pp.create_sgen(net, nb, 3.0, 0.5, sn_mva=4., name="sg_bbo")
    elif k == "lsw_open":         # open line switch: line out of operation through a switch
        _, line = d
        pp.create_switch(net, int(net.line.at[line, "from_bus"]), line, "l", closed=False)
    else:
        na.apply_dev(net, d)


def build(case):
    net = base(case["base"])
    for d in case.get("devs", ()):
        apply_dev(net, d)
    return net


def dev_menu(basename):
    if basename == "G6":
        return [["sn", 100.], ["gen_slack", 0], ["ext_ward", 1], ["ext_xward", 2], ["bb", 3], ["bb", 1],
                ["dcline", 1, 3, 4.0], ["dcline", 4, 5, 0.5], ["bb2", 3, 2], ["bb2", 1, 0], ["bbo", 1, 2], ["bbo", 5, 4],
                ["set", "line", 4, "in_service", False], ["lsw_open", 1], ["sgen", 3, 4.0, 1.0, 1., True],
                ["shunt", 2, 0.2, -3.0, 1, 1.0, True], ["storage", 1, 2.0, 0.5, 1., True],
                ["set", "load", 1, "scaling", 0.5], ["set", "gen", 0, "in_service", False],
                ["motor", 1, 2.0, True]]
    return [["sn", 100.], ["gen_slack", 0], ["ext_ward", 1], ["dcline", 1, 3, 4.0], ["set", "line", 4, "in_service", False],
            ["sgen", 3, 4.0, 1.0, 1., True], ["shunt", 2, 0.2, -3.0, 1, 1.0, True]]


# ----------------------------------------------------------------------------------------------
# splits
# ----------------------------------------------------------------------------------------------
def _adjacency(net):
    adj = {int(b): set() for b in net.bus.index}
    for tab, a, b in (("line", "from_bus", "to_bus"), ("trafo", "hv_bus", "lv_bus"), ("impedance", "from_bus", "to_bus")):
        for f, t in zip(net[tab][a].values, net[tab][b].values):
            adj[int(f)].add(int(t))
            adj[int(t)].add(int(f))
    for b, e, et, c in zip(net.switch.bus.values, net.switch.element.values, net.switch.et.values,
                           net.switch.closed.values):
        if et == "b" and c:
            adj[int(b)].add(int(e))
            adj[int(e)].add(int(b))
    return adj


def _connected(S, adj):
    S = set(S)
    s = min(S)
    seen, st = {s}, [s]
    while st:
        x = st.pop()
        for y in adj[x]:
            if y in S and y not in seen:
                seen.add(y)
                st.append(y)
    return seen == S


def splits(net):
    """every partition of the buses into (internal I, boundary B, external E) with B and E non-empty, no branch
    between I and E (B separates) and I connected (or empty: 'whole grid external'); non-empty I first."""
    adj = _adjacency(net)
    V = sorted(adj)
    out = []
    for assign in itertools.product("IBE", repeat=len(V)):
        I = [v for v, a in zip(V, assign) if a == "I"]
        B = [v for v, a in zip(V, assign) if a == "B"]
        E = [v for v, a in zip(V, assign) if a == "E"]
        if not B or not E:
            continue
        if I and not _connected(I, adj):
            continue
        Es = set(E)
        if any(adj[i] & Es for i in I):
            continue
        out.append({"I": I, "B": B, "E": E})
    out.sort(key=lambda s: (not s["I"], len(s["E"]), len(s["B"])))
    return out


# ----------------------------------------------------------------------------------------------
# snapshot of the caller's net
# ----------------------------------------------------------------------------------------------
def snapshot(net):
    snap = {}
    for k in list(net.keys()):
        v = net[k]
        if k.startswith("_"):
            continue
        if isinstance(v, pd.DataFrame):
            snap[k] = v.copy(deep=True)
        elif isinstance(v, (int, float, str, bool)) or v is None:
            snap[k] = v
    return snap


def _cell_eq(a, b):
    if a is b:
        return True
    try:
        if pd.isna(a) and pd.isna(b):
            return True
    except (TypeError, ValueError):
        pass
    try:
        return bool(a == b)
    except Exception:
        return repr(a) == repr(b)


def diff_snapshot(snap, net):
    """[(table, what)] for every difference; new columns / new tables are tolerated"""
    out = []
    for k, old in snap.items():
        if k not in net:
            out.append((k, "entry removed"))
            continue
        new = net[k]
        if isinstance(old, pd.DataFrame):
            if not isinstance(new, pd.DataFrame):
                out.append((k, "no longer a DataFrame"))
                continue
            if list(old.index) != list(new.index):
                out.append((k, "index %s -> %s" % (list(old.index)[:8], list(new.index)[:8])))
                continue
            for c in old.columns:
                if c not in new.columns:
                    out.append((k, "column %s removed" % c))
                    continue
                if str(old[c].dtype) != str(new[c].dtype):
                    out.append((k, "dtype of %s: %s -> %s" % (c, old[c].dtype, new[c].dtype)))
                for i, (a, b) in enumerate(zip(old[c].values, new[c].values)):
                    if not _cell_eq(a, b):
                        out.append((k, "%s[%s]: %r -> %r" % (c, old.index[i], a, b)))
                        break
        else:
            if not _cell_eq(old, new):
                out.append((k, "%r -> %r" % (old, new)))
    return out


# ----------------------------------------------------------------------------------------------
# voltage comparison (buses mapped by name)
# ----------------------------------------------------------------------------------------------
def compare_voltages(net, eq, buses, tol_vm=1e-6, tol_va=1e-4):
    """-> (worst dvm, worst dva, problems list)"""
    names = {}
    for idx, nm in zip(eq.bus.index, eq.bus.name.values):
        names.setdefault(str(nm), []).append(int(idx))
    worst_vm = worst_va = 0.
    probs = []
    for b in buses:
        nm = str(net.bus.at[b, "name"])
        tgt = names.get(nm, [])
        if len(tgt) != 1:
            probs.append({"bus": b, "problem": "bus name %s occurs %d times in the equivalent" % (nm, len(tgt))})
            continue
        t = tgt[0]
        vm0, va0 = float(net.res_bus.at[b, "vm_pu"]), float(net.res_bus.at[b, "va_degree"])
        vm1, va1 = float(eq.res_bus.at[t, "vm_pu"]), float(eq.res_bus.at[t, "va_degree"])
        if not (np.isfinite(vm1) and np.isfinite(va1)):
            probs.append({"bus": b, "problem": "no voltage result in the equivalent", "eq_bus": t})
            continue
        dvm, dva = abs(vm1 - vm0), abs(va1 - va0)
        worst_vm, worst_va = max(worst_vm, dvm), max(worst_va, dva)
        if dvm > tol_vm or dva > tol_va:
            probs.append({"bus": b, "eq_bus": t, "vm": [vm0, vm1], "va": [va0, va1], "same_index": t == b})
    return worst_vm, worst_va, probs

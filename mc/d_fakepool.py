"""agentD: E5 controlled worker pool (DESIGN.md §3).

`FakeMP(director)` stands in for the `multiprocessing` module object that
pandapower/contingency/contingency_parallel.py binds as `mp` (the code calls `mp.Pool(processes=n)` as a context
manager, `pool.map(func, tasks)` and `mp.cpu_count()`).  `installed(module, director)` swaps it in and out.

Fidelity to multiprocessing.pool.Pool (CPython 3.12):
* map/starmap/map_async: chunksize, extra = divmod(n, 4*procs); +1 if extra  (== ceil(n / (4*procs))) unless given;
  imap/imap_unordered: chunksize 1 unless given; apply_async: one task.
* every chunk is shipped as pickle((func, args-of-the-chunk)) with multiprocessing's ForkingPickler and its result is
  pickled back, so workers never see the caller's objects and unpicklable callables/arguments/results fail as they
  do in the stdlib.  (The callable of one batch is serialised once and unpickled freshly per chunk: the parent is
  blocked while the stdlib feeds the queue, so per-chunk pickles of the unmodified callable are byte-identical.)
* chunks are executed in-process, one after the other, in the COMPLETION ORDER dictated by the director: a
  permutation of the chunk numbers of the batch.  map/starmap/imap return results in task order, imap_unordered yields
  them in completion order, callbacks of *_async fire in completion order, and - as in the stdlib - the exception
  re-raised by map()/get() is the one of the chunk that FAILED FIRST in completion order.
* not modelled: which OS process runs which chunk (per-process global state), prefetching, maxtasksperchild,
  timeouts.  `feasible(order, procs)` tells whether a completion order can occur with `procs` workers that each
  take the next queued chunk when idle (chunk j can be running only while fewer than `procs` earlier chunks are
  unfinished); the explorer enumerates ALL permutations (a superset) and records feasibility.

Chunk results may be memoised per (pickled callable, pickled chunk arguments): with fresh unpickled inputs a chunk is a
function of its payload unless the worker code reads process-global state; the explorer validates this by running
designated schedules with the memo switched off and comparing (see checks/C15.py).
"""
import hashlib
import math
import pickle
from multiprocessing.reduction import ForkingPickler


class ScheduleMismatch(Exception):
    """the completion order handed to the director does not fit the batch that the code under test submitted"""


class Director:
    """Owns the completion order and logs what the code under test asked the pool to do."""

    def __init__(self, order=None, memo=None, cpu_count=3):
        self.order = None if order is None else tuple(order)
        self.memo = memo                # dict or None
        self.cpu = cpu_count
        self.batches = []               # one entry per batch: dict(method, procs, n_tasks, chunksize, n_chunks, order)
        self.pools = 0
        self.executed = 0               # chunks really executed (memo misses)
        self.memo_hits = 0

    def completion_order(self, n_chunks):
        if self.order is None:
            return tuple(range(n_chunks))
        if len(self.order) != n_chunks or sorted(self.order) != list(range(n_chunks)):
            raise ScheduleMismatch("order %r does not fit a batch of %d chunks" % (self.order, n_chunks))
        return self.order


def feasible(order, procs):
    done = set()
    for c in order:
        if sum(1 for j in range(c) if j not in done) >= procs:
            return False
        done.add(c)
    return True


def default_chunksize(n, procs):
    chunksize, extra = divmod(n, procs * 4)
    if extra:
        chunksize += 1
    return max(chunksize, 1) if n else 0


def _dumps(obj):
    return bytes(ForkingPickler.dumps(obj))


def _run_chunk(director, func_bytes, star, chunk):
    """execute one chunk like a worker process would: fresh unpickled callable and arguments, pickled result"""
    arg_bytes = _dumps(chunk)
    key = None
    if director.memo is not None:
        key = hashlib.sha1(func_bytes).hexdigest() + hashlib.sha1(arg_bytes).hexdigest() + str(star)
        hit = director.memo.get(key)
        if hit is not None:
            director.memo_hits += 1
            return pickle.loads(hit)
    func = pickle.loads(func_bytes)
    args = pickle.loads(arg_bytes)
    director.executed += 1
    try:
        if star:
            out = (True, [func(*a) for a in args])
        else:
            out = (True, [func(a) for a in args])
    except Exception as e:            # shipped back like multiprocessing does
        try:
            out = (False, pickle.loads(_dumps(e)))
        except Exception as e2:       # unpicklable exception
            out = (False, RuntimeError("MaybeEncodingError: %r (%r)" % (e, e2)))
    blob = _dumps(out)
    if key is not None:
        director.memo[key] = blob
    return pickle.loads(blob)


class _Batch:
    """a submitted map-like batch; executed lazily, exactly once, in the director's completion order"""

    def __init__(self, pool, method, func, items, chunksize, star=False, callback=None, error_callback=None):
        self.pool, self.method = pool, method
        items = list(items)
        self.n = len(items)
        self.chunksize = max(int(chunksize), 1)
        self.chunks = [items[i:i + self.chunksize] for i in range(0, self.n, self.chunksize)]
        self.star = star
        self.func_bytes = _dumps(func)          # pickling errors surface at submission, as in Pool._guarded_task_generation
        self.callback, self.error_callback = callback, error_callback
        self.done = False
        self.results = {}                       # chunk no -> (ok, payload)
        self.order = None
        self.error = None

    def run(self):
        if self.done:
            return
        self.done = True
        d = self.pool._director
        self.order = d.completion_order(len(self.chunks))
        d.batches.append({"method": self.method, "procs": self.pool._processes, "n_tasks": self.n,
                          "chunksize": self.chunksize, "n_chunks": len(self.chunks), "order": list(self.order),
                          "feasible": feasible(self.order, self.pool._processes)})
        for c in self.order:
            ok, payload = _run_chunk(d, self.func_bytes, self.star, self.chunks[c])
            self.results[c] = (ok, payload)
            if not ok and self.error is None:
                self.error = payload            # first failure in completion order wins (MapResult._set)
        if self.error is not None:
            if self.error_callback:
                self.error_callback(self.error)
        elif self.callback:
            self.callback(self.in_task_order())

    def in_task_order(self):
        out = []
        for c in range(len(self.chunks)):
            out.extend(self.results[c][1])
        return out

    def in_completion_order(self):
        for c in self.order:
            ok, payload = self.results[c]
            if ok:
                for r in payload:
                    yield (True, r)
            else:
                yield (False, payload)


class AsyncResult:
    def __init__(self, batch, single=False):
        self._b, self._single = batch, single

    def ready(self):
        return self._b.done

    def wait(self, timeout=None):
        self._b.pool._drive()

    def successful(self):
        if not self._b.done:
            raise ValueError("%r not ready" % (self,))
        return self._b.error is None

    def get(self, timeout=None):
        self._b.pool._drive()
        if self._b.error is not None:
            raise self._b.error
        r = self._b.in_task_order()
        return r[0] if self._single else r


class FakePool:
    def __init__(self, processes=None, initializer=None, initargs=(), maxtasksperchild=None, context=None,
                 _director=None):
        self._director = _director
        if processes is None:
            processes = _director.cpu
        if processes < 1:
            raise ValueError("Number of processes must be at least 1")
        self._processes = int(processes)
        self._state = "RUN"
        self._pending = []              # async batches not yet executed
        _director.pools += 1
        if initializer is not None:
            initializer(*initargs)

    # -- life cycle ------------------------------------------------------------------------
    def __enter__(self):
        self._check_running()
        return self

    def __exit__(self, *exc):
        self.terminate()
        return False

    def close(self):
        if self._state == "RUN":
            self._state = "CLOSE"

    def terminate(self):
        self._state = "TERMINATE"
        self._pending = []              # like the stdlib: outstanding work is dropped

    def join(self):
        if self._state == "RUN":
            raise ValueError("Pool is still running")
        if self._state == "CLOSE":
            self._drive()

    def _check_running(self):
        if self._state != "RUN":
            raise ValueError("Pool not running")

    # -- scheduling --------------------------------------------------------------------------
    def _drive(self):
        """all batches submitted so far complete; several pending single tasks (apply_async) form ONE schedule:
        the director's permutation is over the pending batches, otherwise over the chunks of the batch"""
        pend, self._pending = self._pending, []
        if len(pend) > 1 and all(len(b.chunks) == 1 for b in pend):
            for i in self._director.completion_order(len(pend)):
                saved, self._director.order = self._director.order, None
                try:
                    pend[i].run()
                finally:
                    self._director.order = saved
        else:
            for b in pend:
                b.run()

    def _submit(self, method, func, iterable, chunksize, star=False, callback=None, error_callback=None, lazy=False):
        self._check_running()
        b = _Batch(self, method, func, iterable, chunksize, star, callback, error_callback)
        self._pending.append(b)
        if not lazy:
            self._drive()
        return b

    # -- the Pool surface ----------------------------------------------------------------------
    def map(self, func, iterable, chunksize=None):
        return self.map_async(func, iterable, chunksize, _method="map").get()

    def starmap(self, func, iterable, chunksize=None):
        return self.starmap_async(func, iterable, chunksize, _method="starmap").get()

    def map_async(self, func, iterable, chunksize=None, callback=None, error_callback=None, _method="map_async",
                  _star=False):
        items = list(iterable)
        if chunksize is None:
            chunksize = default_chunksize(len(items), self._processes)
        b = self._submit(_method, func, items, chunksize or 1, _star, callback, error_callback, lazy=True)
        return AsyncResult(b)

    def starmap_async(self, func, iterable, chunksize=None, callback=None, error_callback=None,
                      _method="starmap_async"):
        return self.map_async(func, iterable, chunksize, callback, error_callback, _method=_method, _star=True)

    def imap(self, func, iterable, chunksize=1):
        return self._iter_imap(self._submit("imap", func, iterable, chunksize))

    @staticmethod
    def _iter_imap(b):
        # results in task order; the stdlib yields the results before the first failing task, then raises
        for c in range(len(b.chunks)):
            ok, payload = b.results[c]
            if not ok:
                raise payload
            for r in payload:
                yield r

    def imap_unordered(self, func, iterable, chunksize=1):
        return self._iter_unordered(self._submit("imap_unordered", func, iterable, chunksize))

    @staticmethod
    def _iter_unordered(b):
        for ok, r in b.in_completion_order():
            if not ok:
                raise r
            yield r

    def apply_async(self, func, args=(), kwds=None, callback=None, error_callback=None):
        self._check_running()
        call = _Apply(func, kwds or {})
        cb = (lambda rs: callback(rs[0])) if callback else None
        b = _Batch(self, "apply_async", call, [tuple(args)], 1, False, cb, error_callback)
        self._pending.append(b)
        return AsyncResult(b, single=True)

    def apply(self, func, args=(), kwds=None):
        return self.apply_async(func, args, kwds).get()


class _Apply:
    """picklable func(*args, **kwds) adapter for apply/apply_async"""

    def __init__(self, func, kwds):
        self.func, self.kwds = func, kwds

    def __call__(self, args):
        return self.func(*args, **self.kwds)


class FakeMP:
    """the part of the `multiprocessing` module surface that pool users touch"""

    def __init__(self, director):
        self._director = director

    def Pool(self, processes=None, initializer=None, initargs=(), maxtasksperchild=None):
        return FakePool(processes, initializer, initargs, maxtasksperchild, _director=self._director)

    def cpu_count(self):
        return self._director.cpu

    def get_context(self, method=None):
        return self

    def get_start_method(self, allow_none=False):
        return "fake"

    def __getattr__(self, name):        # anything else (Queue, Process, ...) is outside the controlled surface
        raise AttributeError("FakeMP does not model multiprocessing.%s" % name)


class installed:
    """with installed(module, director): ...   replaces `module.mp` (how contingency_parallel obtains its pool)"""

    def __init__(self, module, director, attr="mp"):
        self.module, self.director, self.attr = module, director, attr

    def __enter__(self):
        self.saved = getattr(self.module, self.attr)
        setattr(self.module, self.attr, FakeMP(self.director))
        return self.director

    def __exit__(self, *exc):
        setattr(self.module, self.attr, self.saved)
        return False


def n_orders(n_chunks):
    return math.factorial(n_chunks)

"""E4: crash-point enumeration with sys.monitoring (PEP 669, Python 3.12) - no source hooks.

trace(fn)      -> list of (filename, qualname, lineno) for every PY_START event (thorough: LINE event) of code
                  objects that live under the pandapower package directory, in execution order.
inject(fn, k, expect) -> runs fn() and raises InjectedFault from the monitoring callback at event number k
                  (0-based); the exception propagates into the monitored frame and unwinds through the library's
                  own try/except/finally.  `expect` (the trace entry) is compared with what is seen at event k:
                  a divergence is a harness error (the run is not the one that was traced), never a verdict.
"""
import os
import sys

import pandapower

PKG = os.path.dirname(os.path.abspath(pandapower.__file__)) + os.sep
TOOL = 3
_mon = sys.monitoring


class InjectedFault(Exception):
    pass


class Divergence(RuntimeError):
    pass


_state = {"mode": None, "count": 0, "target": -1, "events": None, "expect": None, "fired": False, "seen": None}
_claimed = False


def _claim():
    global _claimed
    if not _claimed:
        try:
            _mon.use_tool_id(TOOL, "verif-faultinj")
        except ValueError:
            _mon.free_tool_id(TOOL)
            _mon.use_tool_id(TOOL, "verif-faultinj")
        _claimed = True


def _skip(code):
    fn = code.co_filename
    return (not fn.startswith(PKG)) or (os.sep + "test" + os.sep in fn)


def _on_start(code, offset):
    if _skip(code):
        return _mon.DISABLE
    st = _state
    if st["mode"] is None:
        return None
    k = st["count"]
    st["count"] = k + 1
    if st["mode"] == "trace":
        st["events"].append((code.co_filename[len(PKG):], code.co_qualname, code.co_firstlineno))
    elif k == st["target"] and not st["fired"]:
        st["fired"] = True
        st["seen"] = (code.co_filename[len(PKG):], code.co_qualname, code.co_firstlineno)
        raise InjectedFault("injected at event %d: %s:%s" % (k, st["seen"][0], st["seen"][1]))
    return None


def _on_line(code, line):
    if _skip(code):
        return _mon.DISABLE
    st = _state
    if st["mode"] is None:
        return None
    k = st["count"]
    st["count"] = k + 1
    if st["mode"] == "trace":
        st["events"].append((code.co_filename[len(PKG):], code.co_qualname, line))
    elif k == st["target"] and not st["fired"]:
        st["fired"] = True
        st["seen"] = (code.co_filename[len(PKG):], code.co_qualname, line)
        raise InjectedFault("injected at line event %d: %s:%s:%d" % (k, st["seen"][0], st["seen"][1], line))
    return None


def _arm(lines):
    _claim()
    if lines:
        _mon.register_callback(TOOL, _mon.events.LINE, _on_line)
        _mon.set_events(TOOL, _mon.events.LINE)
    else:
        _mon.register_callback(TOOL, _mon.events.PY_START, _on_start)
        _mon.set_events(TOOL, _mon.events.PY_START)
    _mon.restart_events()


def _disarm():
    _state["mode"] = None
    _mon.set_events(TOOL, 0)


def trace(fn, lines=False):
    """Run fn() recording events. Returns (events, outcome) where outcome is 'ok' or the exception class name."""
    _state.update(mode="trace", count=0, target=-1, events=[], fired=False, seen=None)
    _arm(lines)
    try:
        try:
            fn()
            oc = "ok"
        except Exception as e:
            oc = type(e).__name__
    finally:
        ev = _state["events"]
        _disarm()
    return ev, oc


def inject(fn, k, expect=None, lines=False):
    """Run fn() with a fault at event k. Returns (outcome, fired): outcome 'ok' (fault swallowed or not reached),
    'InjectedFault' (propagated), or another exception class name (fault translated by the library)."""
    _state.update(mode="inject", count=0, target=k, events=None, fired=False, seen=None)
    _arm(lines)
    try:
        try:
            fn()
            oc = "ok"
        except InjectedFault:
            oc = "InjectedFault"
        except Exception as e:
            oc = type(e).__name__
    finally:
        fired, seen = _state["fired"], _state["seen"]
        _disarm()
    if expect is not None and fired and tuple(seen) != tuple(expect):
        raise Divergence("event %d: traced %r but saw %r" % (k, tuple(expect), seen))
    if expect is not None and not fired:
        raise Divergence("event %d (%r) was not reached in the injected run" % (k, tuple(expect)))
    return oc, fired


_FINALLY = {}


def in_cleanup_block(entry):
    """Is this LINE event inside the body of a `finally:` block (the restoring code itself)?  A fault injected there is a fault
    in the cleanup, which no implementation can survive; such crash points are excluded from the LINE-level enumeration."""
    import ast
    fn, _, line = entry
    if fn not in _FINALLY:
        lines = set()
        try:
            tree = ast.parse(open(os.path.join(PKG, fn)).read())
            for node in ast.walk(tree):
                if isinstance(node, ast.Try):
                    lines.add(node.lineno)          # the `try:` header executes nothing that can raise
                    for st in node.finalbody:
                        lines.update(range(st.lineno, (st.end_lineno or st.lineno) + 1))
        except Exception:
            pass
        _FINALLY[fn] = lines
    return line in _FINALLY[fn]


def select_points(events, mode="first_last"):
    """Quick tier: first and last occurrence of every distinct code location; thorough: every event."""
    if mode == "all":
        return list(range(len(events)))
    first, last = {}, {}
    for i, e in enumerate(events):
        first.setdefault(e, i)
        last[e] = i
    return sorted(set(first.values()) | set(last.values()))

"""C26 helpers (agentJ): topology deviation menu, option-vector product and the reference graph.

The reference is written from the docstring of create_nxgraph / connected_components /
calc_distance_to_bus with plain Python sets, lists and dicts only (no networkx, no pandas in the oracle):

* nodes   = buses of net.bus, minus nogobuses, minus out-of-service buses unless include_out_of_service
* edges   = one edge per included branch (line / impedance / dcline / trafo; a trafo3w contributes hv-mv, hv-lv
            and mv-lv, all three keyed ("trafo3w", idx)) that is in service (or include_out_of_service=True) and -
            when respect_switches - has no open switch: an open "l"/"t" switch removes the branch, an open "t3"
            switch at bus b of transformer t removes only the pairs incident to the side connected at b;
            bus-bus switches are edges when closed (all of them when respect_switches=False) if include_switches
* weights = line.length_km, 0 for everything else (trafo_length_km / switch_length_km not given)
* notravbuses: such a bus stays a neighbour of its neighbours (it can be reached, test_distance pins this) but has
            no outgoing adjacency (it is not traversed) - "remove the edges pointing away of notravbuses"
"""
import copy
import heapq
import itertools

from mc import netalpha as na

import pandapower as pp

KINDS = ["line", "impedance", "dcline", "trafo", "trafo3w", "switch"]
OPTKEY = {"line": "include_lines", "impedance": "include_impedances", "dcline": "include_dclines",
          "trafo": "include_trafos", "trafo3w": "include_trafo3ws", "switch": "include_switches"}
BASES = ["R3", "M4", "T3", "W3", "I2", "W2"]
_OWN = {}


def _mk_W2():
    """two PARALLEL three-winding transformers on the same hv/mv/lv buses (0 / 1 / 2) + line 1-3; trafo3w 1 has a
    closed t3 switch at its mv bus.  With k<=2 menu deviations every pair of open t3 switches - same or different
    transformer, every side combination - is reached: (trafo3w index, bus) pairs that share the index OR the bus."""
    net = pp.create_empty_network(sn_mva=1.)
    pp.create_bus(net, 110., name="b0")
    pp.create_bus(net, 20., name="b1")
    pp.create_bus(net, 10., name="b2")
    pp.create_bus(net, 20., name="b3")
    pp.create_ext_grid(net, 0, vm_pu=1.02, **na.EG)
    pp.create_transformer3w_from_parameters(net, 0, 1, 2, **na.TR3)
    pp.create_transformer3w_from_parameters(net, 0, 1, 2, **na.TR3)
    pp.create_line_from_parameters(net, 1, 3, **na.LINE)
    pp.create_load(net, 2, 3.0, 1.0)
    pp.create_load(net, 3, 2.0, 0.5)
    pp.create_switch(net, 1, 1, "t3", closed=True)
    return net


HOT = dict(na.HOT, W2=(1, 2))


def base(name):
    if name != "W2":
        return na.base(name)
    if name not in _OWN:
        _OWN[name] = _mk_W2()
    return copy.deepcopy(_OWN[name])


# ----------------------------------------------------------------------------------------------
# nets
# ----------------------------------------------------------------------------------------------
def apply_dev(net, d):
    k = d[0]
    if k == "pline":          # extra line with its own length (parallel path / parallel edge)
        _, fb, tb, length, ins = d
        prm = dict(na.LINE110 if na._vn(net, fb) > 50 else na.LINE)
        prm["length_km"] = length
        pp.create_line_from_parameters(net, fb, tb, in_service=ins, **prm)
    elif k == "imp":
        _, fb, tb, ins = d
        pp.create_impedance(net, fb, tb, 0.02, 0.05, 10., in_service=ins)
    elif k == "dcl":
        _, fb, tb, ins = d
        pp.create_dcline(net, fb, tb, 0.5, 1.0, 0.01, 1.01, 1.0, in_service=ins)
    else:
        na.apply_dev(net, d)


def build(case):
    net = base(case["base"])
    for d in case.get("devs", ()):
        apply_dev(net, d)
    return net


def topo_menu(basename):
    """Every switch position / in_service flag of the base net plus structural additions, derived from the
    base net itself (so that all bus-bus / line / trafo / trafo3w switch positions are in the menu)."""
    net = base(basename)
    m = []
    for s in net.switch.index:
        m.append(["set", "switch", int(s), "closed", not bool(net.switch.at[s, "closed"])])
        if net.switch.at[s, "et"] == "b":
            m.append(["set", "switch", int(s), "z_ohm", 0.5])
    for l in net.line.index:
        fb, tb = int(net.line.at[l, "from_bus"]), int(net.line.at[l, "to_bus"])
        m.append(["switch", fb, int(l), "l", False, 0.])
        m.append(["switch", tb, int(l), "l", False, 0.])
        m.append(["set", "line", int(l), "in_service", False])
    if len(net.line):
        l = int(net.line.index[-1])
        m.append(["switch", int(net.line.at[l, "to_bus"]), l, "l", True, 0.])
    for t in net.trafo.index:
        hv, lv = int(net.trafo.at[t, "hv_bus"]), int(net.trafo.at[t, "lv_bus"])
        m += [["switch", hv, int(t), "t", False, 0.], ["switch", lv, int(t), "t", False, 0.],
              ["switch", lv, int(t), "t", True, 0.], ["set", "trafo", int(t), "in_service", False]]
    for t in net.trafo3w.index:
        for side in ("hv", "mv", "lv"):
            m.append(["switch", int(net.trafo3w.at[t, side + "_bus"]), int(t), "t3", False, 0.])
        m.append(["switch", int(net.trafo3w.at[t, "lv_bus"]), int(t), "t3", True, 0.])
        m.append(["set", "trafo3w", int(t), "in_service", False])
    for b in net.bus.index:
        m.append(["set", "bus", int(b), "in_service", False])
    # bus-bus switches between equal-voltage bus pairs: open, closed z=0, closed z>0
    vn = net.bus.vn_kv
    pairs = [(int(a), int(b)) for a, b in itertools.combinations(net.bus.index, 2) if vn[a] == vn[b]]
    pairs = pairs[:1] + pairs[-1:] if len(pairs) > 1 else pairs
    for i, (a, b) in enumerate(pairs):
        m.append(["switch", a, b, "b", True, 0.])
        m.append(["switch", a, b, "b", False, 0.] if i == 0 else ["switch", a, b, "b", True, 0.5])
    # additional branches: parallel line with another length (in / out of service), impedance, dcline
    if len(net.line):
        l0 = net.line.index[0]
        fb, tb = int(net.line.at[l0, "from_bus"]), int(net.line.at[l0, "to_bus"])
        m.append(["pline", fb, tb, 0.5, True])
        m.append(["pline", tb, fb, 7.0, False])
    if pairs:
        a, b = pairs[-1]
        m += [["imp", a, b, True], ["imp", b, a, False], ["dcl", a, b, True], ["dcl", a, b, False]]
        a, b = pairs[0]
        m += [["pline", a, b, 1.0, True]]
    m.append(["bus", int(net.bus.index[-1]), True])
    m.append(["bus", int(net.bus.index[1]), False])
    # canonical, duplicate-free
    out, seen = [], set()
    for d in m:
        key = repr(d)
        if key not in seen:
            seen.add(key)
            out.append(d)
    return out


def gen_nets(k):
    """(base, devs) for every subset of <= k menu deviations, smallest first."""
    cases = []
    for b in BASES:
        for devs in na.subsets(topo_menu(b), k):
            cases.append({"base": b, "devs": [list(d) for d in devs]})
    cases.sort(key=lambda c: len(c["devs"]))      # stable: minimal first
    return cases


# ----------------------------------------------------------------------------------------------
# plain-Python view of the net (the only place where the oracle touches pandas)
# ----------------------------------------------------------------------------------------------
def extract(net):
    T = {"bus": [(int(i), bool(s)) for i, s in zip(net.bus.index, net.bus.in_service.values)]}
    T["line"] = [(int(i), int(f), int(t), bool(s), float(le)) for i, f, t, s, le in zip(
        net.line.index, net.line.from_bus.values, net.line.to_bus.values, net.line.in_service.values,
        net.line.length_km.values)]
    for tab in ("impedance", "dcline"):
        T[tab] = [(int(i), int(f), int(t), bool(s), 0.) for i, f, t, s in zip(
            net[tab].index, net[tab].from_bus.values, net[tab].to_bus.values, net[tab].in_service.values)]
    T["trafo"] = [(int(i), int(f), int(t), bool(s), 0.) for i, f, t, s in zip(
        net.trafo.index, net.trafo.hv_bus.values, net.trafo.lv_bus.values, net.trafo.in_service.values)]
    T["trafo3w"] = [(int(i), int(h), int(m), int(l), bool(s)) for i, h, m, l, s in zip(
        net.trafo3w.index, net.trafo3w.hv_bus.values, net.trafo3w.mv_bus.values, net.trafo3w.lv_bus.values,
        net.trafo3w.in_service.values)]
    T["switch"] = [(int(i), int(b), int(e), str(et), bool(c)) for i, b, e, et, c in zip(
        net.switch.index, net.switch.bus.values, net.switch.element.values, net.switch.et.values,
        net.switch.closed.values)]
    return T


def _inc(opt, idx):
    if opt is True:
        return True
    if opt is False:
        return False
    return idx in opt


def ref_edges(T, o):
    """list of (u, v, (kind, idx), weight) per the docstring semantics; endpoints not yet filtered by node set"""
    rs, oos = o["respect_switches"], o["include_out_of_service"]
    open_l, open_t, open_t3 = set(), set(), set()
    if rs:
        for i, b, e, et, c in T["switch"]:
            if not c:
                if et == "l":
                    open_l.add(e)
                elif et == "t":
                    open_t.add(e)
                elif et == "t3":
                    open_t3.add((e, b))
    E = []
    for kind, opened in (("line", open_l), ("impedance", ()), ("dcline", ()), ("trafo", open_t)):
        inc = o[OPTKEY[kind]]
        if inc is False:
            continue
        for i, f, t, s, w in T[kind]:
            if _inc(inc, i) and (s or oos) and i not in opened:
                E.append((f, t, (kind, i), w))
    inc = o["include_trafo3ws"]
    if inc is not False:
        for i, h, m, l, s in T["trafo3w"]:
            if _inc(inc, i) and (s or oos):
                for f, t in ((h, m), (h, l), (m, l)):
                    if (i, f) not in open_t3 and (i, t) not in open_t3:
                        E.append((f, t, ("trafo3w", i), 0.))
    inc = o["include_switches"]
    if inc is not False and not (isinstance(inc, list) and not inc):
        for i, b, e, et, c in T["switch"]:
            if et == "b" and (c or not rs) and _inc(inc, i):
                E.append((b, e, ("switch", i), 0.))
    return E


def ref_graph(T, o):
    """-> (nodes:set, adj: {u: [(v, key, w), ...]} directed adjacency honouring notravbuses, edges list)"""
    nogo = set(o["nogobuses"] or ())
    notrav = set(o["notravbuses"] or ())
    nodes = {b for b, s in T["bus"] if b not in nogo and (s or o["include_out_of_service"])}
    edges = [e for e in ref_edges(T, o) if e[0] in nodes and e[1] in nodes]
    adj = {n: [] for n in nodes}
    for u, v, key, w in edges:
        if u not in notrav:
            adj[u].append((v, key, w))
        if v not in notrav and v != u:
            adj[v].append((u, key, w))
    return nodes, adj, edges


def ref_components(nodes, adj, notrav=()):
    """connected_components semantics: clusters of the nodes that are not notravbuses; a notravbus belongs to
    every cluster it is adjacent to (reached, never traversed); two directly connected notravbuses form a pair."""
    notrav = set(notrav)
    und = {n: set() for n in nodes}
    for u, lst in adj.items():
        for v, _, _ in lst:
            und[u].add(v)
            und[v].add(u)
    todo = set(nodes) - notrav
    comps = []
    while todo:
        s = min(todo)
        cc, stack = {s}, [s]
        while stack:
            x = stack.pop()
            for y in und[x]:
                if y not in cc:
                    cc.add(y)
                    if y not in notrav:
                        stack.append(y)
        comps.append(frozenset(cc))
        todo -= cc
    pairs = set()
    for u in notrav & set(nodes):
        for v in und[u]:
            if v in notrav and v != u:
                pairs.add(frozenset((u, v)))
    return comps, pairs


def ref_dijkstra(adj, src, weighted=True):
    """shortest path lengths from src over the directed reference adjacency (min over parallel edges)"""
    dist = {src: 0.}
    pq = [(0., src)]
    done = set()
    while pq:
        d, u = heapq.heappop(pq)
        if u in done:
            continue
        done.add(u)
        for v, _, w in adj[u]:
            nd = d + (w if weighted else 1)
            if v not in dist or nd < dist[v] - 0.:
                if v not in done:
                    dist[v] = nd
                    heapq.heappush(pq, (nd, v))
    return dist


# ----------------------------------------------------------------------------------------------
# option vectors
# ----------------------------------------------------------------------------------------------
def include_values(T, kind, rich):
    """values of one include_* option: True, False, explicit index lists (first / last element; rich: also all, [])"""
    idx = [r[0] for r in T[kind]]
    if not idx:
        return [True]
    vals = [True, False, [idx[0]]]
    if len(idx) > 1:
        vals.append([idx[-1]])
        if rich:
            vals.append(list(idx))
    if rich:
        vals.append([])
    return vals


def option_vectors(T, mode, bsel):
    """mode 'full': full Cartesian product over every option (include_* over the element kinds present);
    mode 'reduced': product of all non-include options x include vectors with at most one non-True entry.
    bsel: buses used for nogobuses / notravbuses singletons."""
    present = [k for k in KINDS if T[k]]
    rich = mode == "full_rich"
    per_kind = {k: include_values(T, k, rich) for k in present}
    if mode.startswith("full"):
        inc_vecs = [dict(zip(present, vals)) for vals in itertools.product(*[per_kind[k] for k in present])]
    else:
        inc_vecs = [{}]
        for k in present:
            for v in per_kind[k][1:]:
                inc_vecs.append({k: v})
    bopts = [None] + [[b] for b in bsel]
    out = []
    for n_inc, inc in enumerate(inc_vecs):
        for rs in (True, False):
            for multi in (True, False):
                for oos in (False, True):
                    for nogo in bopts:
                        for notrav in bopts:
                            if n_inc and nogo is not None and nogo == notrav:
                                continue      # contradictory request: kept once per net (all include_* True)
                            o = {"respect_switches": rs, "multi": multi, "include_out_of_service": oos,
                                 "nogobuses": nogo, "notravbuses": notrav}
                            for k in KINDS:
                                o[OPTKEY[k]] = inc.get(k, True)
                            out.append(o)
    return out

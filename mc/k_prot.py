"""Helpers of check C29 (agentK): device alphabets, current grids and the oracle for fuses / over-current relays.

The current is injected through the narrow seam the devices read: net.res_switch_sc.ikss_ka (scenario "sc") or
net.res_switch.i_ka (scenario "pp"); the other table and the other switch rows hold decoy values that would flip
the trip decision, so reading the wrong table / row is visible.
"""
import copy
import itertools
import math

import numpy as np
import pandas as pd

RTOL = 1e-9
CURVES = {"standard_inverse": (0.140, 0.02), "very_inverse": (13.5, 1.0), "extremely_inverse": (80.0, 2.0),
          "long_inverse": (120.0, 1.0)}        # IEC 60255 constants (k, alpha) as documented for the curve names

FUSE_X = [10.0, 20.0, 50.0, 100.0, 1000.0, 1e4]
FUSE_T_MULTISET = [1000.0, 10.0, 10.0, 0.1, 0.004]     # non-increasing selections (tie included)

_FUSE_NET = {}
_RELAY_NET = {}

# switch index labels (row order is always position 0,1,2): default, a permutation of 0..2 (label != position, every label is also a
# valid position -> a positional read silently takes another switch's value) and user-chosen labels beyond the table length
SWITCH_LABELS = {"default": [0, 1, 2], "permuted": [2, 0, 1], "gapped": [10, 4, 7]}


# ----------------------------------------------------------------------------------------------
# nets
# ----------------------------------------------------------------------------------------------
def fuse_net(swidx="default"):
    """0.4 kV feeder with three line switches (index labels SWITCH_LABELS[swidx]); the device under test sits on the row at position 1"""
    if swidx not in _FUSE_NET:
        import pandapower as pp
        net = pp.create_empty_network()
        pp.create_buses(net, 4, 0.4)
        pp.create_ext_grid(net, 0, s_sc_max_mva=10., s_sc_min_mva=5., rx_max=0.1, rx_min=0.1)
        pp.create_lines_from_parameters(net, [0, 1, 2], [1, 2, 3], [0.1, 0.1, 0.1], 0.2067, 0.080424, 261., 0.27)
        net.line["endtemp_degree"] = 250
        pp.create_switches(net, buses=[0, 1, 2], elements=[0, 1, 2], et="l", type="fuse", index=SWITCH_LABELS[swidx])
        pp.create_load(net, 3, 0.05, 0.01)
        _FUSE_NET[swidx] = net
    return copy.deepcopy(_FUSE_NET[swidx])


def relay_net(swidx="default"):
    """20 kV radial net: ext_grid@0, lines 0:(0-1) 1:(1-2) 2:(1-3) with DIFFERENT max_i_ka, line switches
    s0->line0, s1->line2, s2->line1 (switch index != line index on purpose)"""
    if swidx not in _RELAY_NET:
        import pandapower as pp
        net = pp.create_empty_network()
        pp.create_buses(net, 4, 20., geodata=[(0, 0), (0, -1), (-1, -2), (1, -2)])
        pp.create_ext_grid(net, 0, s_sc_max_mva=100, s_sc_min_mva=50, rx_max=0.1, rx_min=0.1)
        pp.create_lines_from_parameters(net, [0, 1, 1], [1, 2, 3], [2., 5., 4.], 0.642, 0.083, 210., [0.30, 0.20, 0.25])
        net.line["endtemp_degree"] = 250
        pp.create_switches(net, buses=[0, 1, 1], elements=[0, 2, 1], et="l", type="CB", index=SWITCH_LABELS[swidx])
        pp.create_loads(net, [2, 3], [2., 1.], [.5, .2])
        _RELAY_NET[swidx] = net
    return copy.deepcopy(_RELAY_NET[swidx])


# ----------------------------------------------------------------------------------------------
# alphabets
# ----------------------------------------------------------------------------------------------
def nonincreasing_selections(multiset, n):
    ms = sorted(multiset, reverse=True)
    seen, out = set(), []
    for pos in itertools.combinations(range(len(ms)), n):
        t = tuple(ms[i] for i in pos)
        if t not in seen:
            seen.add(t)
            out.append(list(t))
    return out


def fuse_generated(sizes=(2, 3, 4)):
    out = []
    for n in sizes:
        for x in itertools.combinations(FUSE_X, n):
            for t in nonincreasing_selections(FUSE_T_MULTISET, n):
                out.append((list(x), t))
    return out


def ulps(v, k=2):
    """v and its k floating point neighbours on each side"""
    out = [v]
    a = b = v
    for _ in range(k):
        a = float(np.nextafter(a, -np.inf))
        b = float(np.nextafter(b, np.inf))
        out += [a, b]
    return out


def fuse_grid_ka(x_a):
    """sorted kA grid: support points, midpoints, +-ulp around i_start/i_stop (in kA so that i_ka*1000 lands on both
    sides of the limit), decades 1e0..1e5 A"""
    xs = sorted(float(v) for v in x_a)
    g = set()
    for v in xs:
        g.add(v / 1000.0)
    for a, b in zip(xs[:-1], xs[1:]):
        g.add((a + b) / 2000.0)
        g.add(math.sqrt(a * b) / 1000.0)
    for lim in (xs[0], xs[-1]):
        for u in ulps(lim / 1000.0, 3):
            g.add(u)
    for d in range(0, 6):
        g.add(10.0 ** d / 1000.0)
    g.add(0.0)
    return sorted(g)


def relay_grid_ka(pickups):
    ps = sorted({float(p) for p in pickups if p is not None and math.isfinite(p) and p > 0})
    g = {0.0}
    for p in ps:
        for u in ulps(p, 2):
            g.add(u)
        for m in (1.0 + 1e-12, 1.0 + 1e-6, 1.01, 1.1, 1.5, 2.0, 5.0, 10.0, 20.0, 0.5, 0.99):
            g.add(p * m)
    for a, b in zip(ps[:-1], ps[1:]):
        g.add((a + b) / 2.0)
    for d in range(0, 6):
        g.add(10.0 ** d / 1000.0)
    return sorted(g)


# ----------------------------------------------------------------------------------------------
# injection + evaluation
# ----------------------------------------------------------------------------------------------
def inject(net, scenario, sw, i_ka, decoy_ka):
    """write the current into the table of the scenario (row sw); every other cell holds the decoy"""
    idx = net.switch.index
    # every other cell holds a decoy (slightly different per row, all on the decoy's side of the threshold)
    a = decoy_ka * (1.0 + 0.01 * np.arange(len(idx)))
    b = decoy_ka * (1.0 + 0.02 * np.arange(len(idx)))
    pos = list(idx).index(sw)
    if scenario == "sc":
        a[pos] = i_ka
    else:
        b[pos] = i_ka
    net["res_switch_sc"] = pd.DataFrame({"ikss_ka": a}, index=idx)
    net["res_switch"] = pd.DataFrame({"i_ka": b}, index=idx)


def eff_time(res):
    """reported time with 'no trip' (inf / NaN / not tripped) mapped to +inf"""
    t = res.get("trip_melt_time_s")
    try:
        t = float(t)
    except Exception:
        return float("nan")
    if math.isnan(t) or not res.get("trip_melt"):
        return float("inf")
    return t


def monotone_break(currents, times):
    """first pair of consecutive grid currents with t(I_larger) > t(I_smaller) beyond rounding"""
    for (i1, t1), (i2, t2) in zip(zip(currents[:-1], times[:-1]), zip(currents[1:], times[1:])):
        if math.isnan(t1) or math.isnan(t2):
            return {"i_ka": [i1, i2], "t_s": [t1, t2], "nan": True}
        if t2 > t1 and not (math.isfinite(t1) and t2 <= t1 + RTOL * abs(t1) + 1e-300):
            return {"i_ka": [i1, i2], "t_s": [t1, t2]}
    return None


def idmt_time(i, i_s, tms, t_grade, curve):
    k, alpha = CURVES[curve]
    r = (i / i_s) ** alpha - 1.0
    if r <= 0:
        return float("inf")
    return tms * k / r + t_grade
